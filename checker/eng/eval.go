package eng

import (
	"bufio"
	"bytes"
	"compress/flate"
	"compress/zlib"
	"encoding/hex"
	"fmt"
	"go/constant"
	"go/token"
	"go/types"
	stdhtml "html"
	"io"
	"math"
	"net/url"
	"path"
	"regexp"
	"sort"
	"strconv"
	"strings"
	"unicode"
	"unicode/utf16"
	"unicode/utf8"

	"golang.org/x/text/unicode/norm"
	"golang.org/x/tools/go/ssa"
)

// E9: a concrete evaluator of small pure SSA functions (integers, booleans, strings, slices, structs, pointers to
// locals). It is used to read a helper of the repository on every input of a small finite domain and compare the
// answers with the specification written in the rule; nothing of the repository is compiled or run. Whatever the
// evaluator does not model (maps, interfaces, channels, calls outside its table) ends the evaluation with
// ErrNotEvaluable, and the rule records "not evaluated".

type (
	// EStruct is a struct value (copied on load and store).
	EStruct struct{ F []any }
	// ESlice is a slice value: the locations it spans (shared with the slices it was cut from). C is its capacity
	// where that is larger than its length (the result of make with a capacity, or of cutting a longer slice): an
	// append that fits writes into the shared locations, as the language says; an append that does not fit gives new
	// storage of twice the old capacity (below 256 elements; never more room than the runtime gives).
	ESlice struct {
		L []*ELoc
		C int
	}
	// ELoc is an addressable location.
	ELoc struct{ V any }
	// EPtr is a pointer: a way to read and write a location (a variable, a field of one, an element).
	EPtr struct {
		Get func() any
		Set func(any)
		// Loc identifies what is pointed to (a location, or a field of one): two pointers to the same variable,
		// element or field are equal and are the same map key
		Loc any
	}
	// ETuple is a multi-value result.
	ETuple []any
)

// EClosure is a function value with its captured variables.
type EClosure struct {
	Fn   *ssa.Function
	Free []any
}

// EIface is an interface value holding a value of a known dynamic type.
type EIface struct {
	T types.Type
	V any
}

// EMap is a map value; Keys keeps the keys in insertion order (ranging visits them in sorted order).
type EMap struct {
	M    map[any]any
	Keys []any
}

type mapIter struct {
	m    *EMap
	keys []any
	pos  int
}

// EBytesReader stands for a *bytes.Reader / *strings.Reader over known bytes.
type EBytesReader struct {
	Data []byte
	Pos  int
	// Tail, when set, is the error a read at the end of the data gives instead of io.EOF (a decompressor whose input
	// is damaged after the bytes it could produce).
	Tail *EErr
}

func (r *EBytesReader) endErr() *EErr {
	if r.Tail != nil {
		return r.Tail
	}
	return ErrEOF
}

// poison marks a value the evaluator could not compute while running a package initialiser tolerantly.
type poison struct{}

// fieldLoc identifies a field of a location.
type fieldLoc struct {
	P any
	F int
}

// EErr is a non-nil error value (what it says is not modelled).
type EErr struct{ Msg string }

// the two sentinel errors of package io, as the evaluator sees them
var (
	ErrEOF           = &EErr{Msg: "EOF"}
	ErrUnexpectedEOF = &EErr{Msg: "unexpected EOF"}
)

func isPointerLike(t types.Type) bool {
	switch t.Underlying().(type) {
	case *types.Pointer, *types.Map, *types.Slice, *types.Signature, *types.Chan:
		return true
	}
	return false
}

func isMapType(t types.Type) bool {
	_, ok := t.Underlying().(*types.Map)
	return ok
}

// mapKey turns an evaluated value into a Go map key (basic values; interface values of basic values).
func mapKey(v any) (any, bool) {
	switch k := v.(type) {
	case int64, string, bool, float64:
		return k, true
	case *EPtr:
		if k != nil && k.Loc != nil {
			return k.Loc, true
		}
	case *EStruct:
		// a struct of basic values is a key by its values
		parts := make([]string, 0, len(k.F))
		for _, f := range k.F {
			fk, ok := mapKey(f)
			if !ok {
				return nil, false
			}
			parts = append(parts, fmt.Sprintf("%T:%v", fk, fk))
		}
		return "struct{" + strings.Join(parts, ";") + "}", true
	case *EIface:
		if inner, ok := mapKey(k.V); ok {
			return fmt.Sprintf("%s:%v", k.T, inner), true
		}
	}
	return nil, false
}

type strIter struct {
	s   string
	pos int
}

// EvalError ends an evaluation. Panic is true when the evaluated code itself would panic (index out of range, nil
// dereference, division by zero); otherwise the evaluator met something it does not model.
type EvalError struct {
	Panic bool
	Msg   string
}

func (e *EvalError) Error() string { return e.Msg }

type Evaluator struct {
	Steps    int // remaining instruction budget
	MaxDepth int
	// External, when set, answers calls of functions outside the module (or without a body): handled=false falls
	// through to the evaluator's own small table.
	External func(g *ssa.Function, args []any) (res any, err *EvalError, handled bool)
	// Invoke, when set, answers interface method calls (recv is the value the interface holds).
	Invoke func(method string, recv any, args []any) (res any, err *EvalError, handled bool)
	// Global, when set, gives the value of a package-level variable of another package (io.EOF).
	Global   func(pkg, name string) (any, bool)
	tolerant bool                  // running a package initialiser: an instruction that cannot be evaluated poisons its result
	globals  map[*ssa.Global]*ELoc // package-level variables of the module, after their package's initialiser ran
	inited   map[*ssa.Package]bool
	bufs     map[*EStruct]*[]byte // contents of the bytes.Buffer / strings.Builder values, by the struct value they live in
}

func NewEvaluator() *Evaluator { return &Evaluator{Steps: 200000, MaxDepth: 12} }

func notEval(f string, a ...any) *EvalError { return &EvalError{Msg: fmt.Sprintf(f, a...)} }
func panics(f string, a ...any) *EvalError  { return &EvalError{Panic: true, Msg: fmt.Sprintf(f, a...)} }

// ZeroOf builds the zero value of a type.
func ZeroOf(t types.Type) any {
	switch u := t.Underlying().(type) {
	case *types.Basic:
		switch {
		case u.Info()&types.IsBoolean != 0:
			return false
		case u.Info()&types.IsString != 0:
			return ""
		case u.Info()&types.IsInteger != 0:
			return int64(0)
		case u.Info()&types.IsFloat != 0:
			return float64(0)
		}
	case *types.Struct:
		s := &EStruct{}
		for i := 0; i < u.NumFields(); i++ {
			s.F = append(s.F, ZeroOf(u.Field(i).Type()))
		}
		return s
	case *types.Slice:
		return &ESlice{}
	case *types.Array:
		sl := &ESlice{}
		for i := int64(0); i < u.Len(); i++ {
			sl.L = append(sl.L, &ELoc{ZeroOf(u.Elem())})
		}
		return sl
	}
	return nil
}

// SetField sets the named field of a struct value built with ZeroOf.
func SetField(s *EStruct, t types.Type, name string, v any) bool {
	st, ok := t.Underlying().(*types.Struct)
	if !ok {
		return false
	}
	for i := 0; i < st.NumFields(); i++ {
		if st.Field(i).Name() == name {
			s.F[i] = v
			return true
		}
	}
	return false
}

func (s *ESlice) capOf() int {
	if s.C > len(s.L) {
		return s.C
	}
	return len(s.L)
}

// upTo gives the locations [0:n) of the storage behind s, n within its capacity, creating those past its length that
// were never written.
func (s *ESlice) upTo(n int, el types.Type) ([]*ELoc, bool) {
	if n <= len(s.L) {
		return s.L, true
	}
	if n > cap(s.L) {
		return nil, false
	}
	full := s.L[:n]
	for i := len(s.L); i < n; i++ {
		if full[i] == nil {
			var z any
			if el != nil {
				z = ZeroOf(el)
			}
			full[i] = &ELoc{z}
		}
	}
	return full, true
}

// SliceOf builds a slice value of the given elements.
func SliceOf(elems ...any) *ESlice {
	sl := &ESlice{}
	for _, e := range elems {
		sl.L = append(sl.L, &ELoc{e})
	}
	return sl
}

// BytesOf builds a []byte value.
func BytesOf(b []byte) *ESlice {
	sl := &ESlice{}
	for _, x := range b {
		sl.L = append(sl.L, &ELoc{int64(x)})
	}
	return sl
}

func copyVal(v any) any {
	if s, ok := v.(*EStruct); ok {
		c := &EStruct{F: make([]any, len(s.F))}
		for i, f := range s.F {
			c.F[i] = copyVal(f)
		}
		return c
	}
	return v
}

func wrapInt(t types.Type, v int64) int64 {
	bt, ok := t.Underlying().(*types.Basic)
	if !ok {
		return v
	}
	switch bt.Kind() {
	case types.Uint8:
		return int64(uint8(v))
	case types.Uint16:
		return int64(uint16(v))
	case types.Uint32:
		return int64(uint32(v))
	case types.Int8:
		return int64(int8(v))
	case types.Int16:
		return int64(int16(v))
	case types.Int32:
		return int64(int32(v))
	}
	return v
}

func isUnsigned(t types.Type) bool {
	bt, ok := t.Underlying().(*types.Basic)
	return ok && bt.Info()&types.IsUnsigned != 0
}

// Call evaluates fn on the arguments (receiver first).
func (ev *Evaluator) Call(fn *ssa.Function, args []any, depth int) (res any, err *EvalError) {
	return ev.callWith(fn, args, nil, depth)
}

func (ev *Evaluator) callWith(fn *ssa.Function, args []any, free []any, depth int) (res any, err *EvalError) {
	if fn.Blocks == nil {
		return nil, notEval("no body: %s", fn.Name())
	}
	if depth > ev.MaxDepth {
		return nil, notEval("call depth")
	}
	if len(args) != len(fn.Params) {
		return nil, notEval("argument count of %s", fn.Name())
	}
	env := map[ssa.Value]any{}
	for i, p := range fn.Params {
		env[p] = args[i]
	}
	if len(free) != len(fn.FreeVars) {
		return nil, notEval("captured variables of %s", fn.Name())
	}
	for i, fv := range fn.FreeVars {
		env[fv] = free[i]
	}
	val := func(v ssa.Value) (any, *EvalError) {
		switch x := v.(type) {
		case *ssa.Const:
			return constVal(x)
		case *ssa.Function:
			return x, nil
		case *ssa.Global:
			if ev.Global != nil && x.Pkg != nil {
				if g, ok := ev.Global(x.Pkg.Pkg.Path(), x.Name()); ok {
					// the address of the variable: loads read the given value
					return &EPtr{Get: func() any { return g }, Set: func(any) {}}, nil
				}
			}
			if x.Pkg != nil && x.Pkg.Pkg.Path() == "io" {
				switch x.Name() {
				case "EOF":
					return &EPtr{Get: func() any { return ErrEOF }, Set: func(any) {}}, nil
				case "ErrUnexpectedEOF":
					return &EPtr{Get: func() any { return ErrUnexpectedEOF }, Set: func(any) {}}, nil
				}
			}
			if x.Pkg != nil && strings.HasPrefix(x.Pkg.Pkg.Path(), ModPath) {
				loc, e := ev.globalCell(x)
				if e != nil {
					return nil, e
				}
				return &EPtr{Get: func() any { return loc.V }, Set: func(v any) { loc.V = v }, Loc: loc}, nil
			}
			return nil, notEval("global %s", x.Name())
		}
		r, ok := env[v]
		if !ok {
			return nil, notEval("value %s not computed", v.Name())
		}
		if _, bad := r.(poison); bad {
			return nil, notEval("value %s depends on something the evaluator could not compute", v.Name())
		}
		return r, nil
	}
	var prev *ssa.BasicBlock
	var defers []func() *EvalError
	b := fn.Blocks[0]
	for {
		var next *ssa.BasicBlock
		// phis read the values of the edge taken, all at once
		phiVals := map[*ssa.Phi]any{}
		for _, in := range b.Instrs {
			ph, ok := in.(*ssa.Phi)
			if !ok {
				break
			}
			idx := -1
			for i, p := range b.Preds {
				if p == prev {
					idx = i
				}
			}
			if idx < 0 {
				return nil, notEval("phi without predecessor")
			}
			pv, e := val(ph.Edges[idx])
			if e != nil {
				return nil, e
			}
			phiVals[ph] = pv
		}
		for ph, pv := range phiVals {
			env[ph] = pv
		}
		for _, in := range b.Instrs {
			ev.Steps--
			if ev.Steps < 0 {
				return nil, notEval("step budget used up (a loop that does not end on this input?)")
			}
			ret, returned, serr := func() (any, bool, *EvalError) {
				switch x := in.(type) {
				case *ssa.Phi, *ssa.DebugRef:
				case *ssa.BinOp:
					l, e := val(x.X)
					if e != nil {
						return nil, false, e
					}
					r, e := val(x.Y)
					if e != nil {
						return nil, false, e
					}
					o, e := binop(x, l, r)
					if e != nil {
						return nil, false, e
					}
					env[x] = o
				case *ssa.UnOp:
					o, e := val(x.X)
					if e != nil {
						return nil, false, e
					}
					switch x.Op {
					case token.NOT:
						bv, ok := o.(bool)
						if !ok {
							return nil, false, notEval("! of non-bool")
						}
						env[x] = !bv
					case token.SUB:
						if fv, isF := o.(float64); isF {
							env[x] = -fv
							break
						}
						iv, ok := o.(int64)
						if !ok {
							return nil, false, notEval("- of non-int")
						}
						env[x] = wrapInt(x.Type(), -iv)
					case token.XOR:
						iv, ok := o.(int64)
						if !ok {
							return nil, false, notEval("^ of non-int")
						}
						env[x] = wrapInt(x.Type(), ^iv)
					case token.MUL:
						p, ok := o.(*EPtr)
						if !ok || p == nil {
							if o == nil {
								return nil, false, panics("nil pointer dereference")
							}
							return nil, false, notEval("load through %T", o)
						}
						env[x] = copyVal(p.Get())
					default:
						return nil, false, notEval("unary %s", x.Op)
					}
				case *ssa.Alloc:
					loc := &ELoc{ZeroOf(x.Type().Underlying().(*types.Pointer).Elem())}
					env[x] = &EPtr{Get: func() any { return loc.V }, Set: func(v any) { loc.V = v }, Loc: loc}
				case *ssa.Store:
					a, e := val(x.Addr)
					if e != nil {
						return nil, false, e
					}
					v, e := val(x.Val)
					if e != nil {
						return nil, false, e
					}
					p, ok := a.(*EPtr)
					if !ok || p == nil {
						return nil, false, panics("store through nil")
					}
					p.Set(copyVal(v))
				case *ssa.FieldAddr:
					a, e := val(x.X)
					if e != nil {
						return nil, false, e
					}
					p, ok := a.(*EPtr)
					if !ok || p == nil {
						return nil, false, panics("field of nil")
					}
					fi := x.Field
					env[x] = &EPtr{
						Get: func() any { return p.Get().(*EStruct).F[fi] },
						Set: func(v any) { p.Get().(*EStruct).F[fi] = v },
						Loc: fieldLoc{p.Loc, fi},
					}
					if _, isS := p.Get().(*EStruct); !isS {
						return nil, false, notEval("field of %T", p.Get())
					}
				case *ssa.Field:
					a, e := val(x.X)
					if e != nil {
						return nil, false, e
					}
					s, ok := a.(*EStruct)
					if !ok {
						return nil, false, notEval("field of %T", a)
					}
					env[x] = copyVal(s.F[x.Field])
				case *ssa.IndexAddr:
					a, e := val(x.X)
					if e != nil {
						return nil, false, e
					}
					iv, e := val(x.Index)
					if e != nil {
						return nil, false, e
					}
					i, ok := iv.(int64)
					if !ok {
						return nil, false, notEval("index %T", iv)
					}
					var sl *ESlice
					switch s := a.(type) {
					case *ESlice:
						sl = s
					case *EPtr: // pointer to array
						if s != nil {
							sl, _ = s.Get().(*ESlice)
						}
					}
					if sl == nil {
						return nil, false, notEval("index of %T", a)
					}
					if i < 0 || i >= int64(len(sl.L)) {
						return nil, false, panics("index out of range [%d] with length %d", i, len(sl.L))
					}
					loc := sl.L[i]
					env[x] = &EPtr{Get: func() any { return loc.V }, Set: func(v any) { loc.V = v }, Loc: loc}
				case *ssa.Index:
					a, e := val(x.X)
					if e != nil {
						return nil, false, e
					}
					iv, e := val(x.Index)
					if e != nil {
						return nil, false, e
					}
					i, _ := iv.(int64)
					if str, isStr := a.(string); isStr {
						if i < 0 || i >= int64(len(str)) {
							return nil, false, panics("index out of range [%d] with length %d", i, len(str))
						}
						env[x] = int64(str[i])
						break
					}
					sl, ok := a.(*ESlice)
					if !ok {
						return nil, false, notEval("index of %T", a)
					}
					if i < 0 || i >= int64(len(sl.L)) {
						return nil, false, panics("index out of range [%d] with length %d", i, len(sl.L))
					}
					env[x] = copyVal(sl.L[i].V)
				case *ssa.Lookup:
					a, e := val(x.X)
					if e != nil {
						return nil, false, e
					}
					if _, isMapT := x.X.Type().Underlying().(*types.Map); isMapT {
						kv, e := val(x.Index)
						if e != nil {
							return nil, false, e
						}
						var got any
						found := false
						if m, ok := a.(*EMap); ok && m != nil {
							k, okk := mapKey(kv)
							if !okk {
								return nil, false, notEval("map key %T", kv)
							}
							got, found = m.M[k]
						}
						if !found {
							got = ZeroOf(x.X.Type().Underlying().(*types.Map).Elem())
						}
						if x.CommaOk {
							env[x] = ETuple{copyVal(got), found}
						} else {
							env[x] = copyVal(got)
						}
						break
					}
					s, ok := a.(string)
					if !ok {
						return nil, false, notEval("lookup in %T", a)
					}
					iv, e := val(x.Index)
					if e != nil {
						return nil, false, e
					}
					i, _ := iv.(int64)
					if i < 0 || i >= int64(len(s)) {
						return nil, false, panics("index out of range [%d] with length %d", i, len(s))
					}
					env[x] = int64(s[i])
				case *ssa.Slice:
					a, e := val(x.X)
					if e != nil {
						return nil, false, e
					}
					get := func(v ssa.Value, def int64) (int64, *EvalError) {
						if v == nil {
							return def, nil
						}
						r, e := val(v)
						if e != nil {
							return 0, e
						}
						i, ok := r.(int64)
						if !ok {
							return 0, notEval("slice bound %T", r)
						}
						return i, nil
					}
					switch s := a.(type) {
					case string:
						lo, e := get(x.Low, 0)
						if e != nil {
							return nil, false, e
						}
						hi, e := get(x.High, int64(len(s)))
						if e != nil {
							return nil, false, e
						}
						if lo < 0 || hi < lo || hi > int64(len(s)) {
							return nil, false, panics("slice bounds out of range [%d:%d] with length %d", lo, hi, len(s))
						}
						env[x] = s[lo:hi]
					case *ESlice, *EPtr:
						var sl *ESlice
						if p, isP := s.(*EPtr); isP {
							if p != nil {
								sl, _ = p.Get().(*ESlice)
							}
						} else {
							sl = s.(*ESlice)
						}
						if sl == nil {
							return nil, false, notEval("slice of %T", a)
						}
						lo, e := get(x.Low, 0)
						if e != nil {
							return nil, false, e
						}
						hi, e := get(x.High, int64(len(sl.L)))
						if e != nil {
							return nil, false, e
						}
						capN := int64(sl.capOf())
						mx, e := get(x.Max, capN)
						if e != nil {
							return nil, false, e
						}
						if lo < 0 || hi < lo || mx < hi || mx > capN {
							return nil, false, panics("slice bounds out of range [%d:%d:%d] with capacity %d", lo, hi, mx, capN)
						}
						var elT types.Type
						if st, ok := x.Type().Underlying().(*types.Slice); ok {
							elT = st.Elem()
						}
						full, ok := sl.upTo(int(hi), elT)
						if !ok {
							return nil, false, notEval("slice beyond the modelled storage")
						}
						env[x] = &ESlice{L: full[lo:hi], C: int(mx - lo)}
					default:
						return nil, false, notEval("slice of %T", a)
					}
				case *ssa.MakeSlice:
					lv, e := val(x.Len)
					if e != nil {
						return nil, false, e
					}
					n, _ := lv.(int64)
					if n < 0 || n > 1<<20 {
						return nil, false, panics("makeslice: len out of range")
					}
					cv, e := val(x.Cap)
					if e != nil {
						return nil, false, e
					}
					cn, _ := cv.(int64)
					if cn < n || cn > 1<<20 {
						return nil, false, panics("makeslice: cap out of range")
					}
					el := x.Type().Underlying().(*types.Slice).Elem()
					all := make([]*ELoc, cn)
					for i := range all {
						all[i] = &ELoc{ZeroOf(el)}
					}
					env[x] = &ESlice{L: all[:n], C: int(cn)}
				case *ssa.Convert:
					o, e := val(x.X)
					if e != nil {
						return nil, false, e
					}
					r, e := convert(x, o)
					if e != nil {
						return nil, false, e
					}
					env[x] = r
				case *ssa.ChangeType:
					o, e := val(x.X)
					if e != nil {
						return nil, false, e
					}
					env[x] = o
				case *ssa.MakeInterface:
					o, e := val(x.X)
					if e != nil {
						return nil, false, e
					}
					if _, isI := x.X.Type().Underlying().(*types.Interface); isI || o == nil && isPointerLike(x.X.Type()) && false {
						env[x] = o
					} else if _, already := o.(*EIface); already {
						env[x] = o
					} else {
						env[x] = &EIface{T: x.X.Type(), V: o}
					}
				case *ssa.ChangeInterface:
					o, e := val(x.X)
					if e != nil {
						return nil, false, e
					}
					env[x] = o
				case *ssa.TypeAssert:
					o, e := val(x.X)
					if e != nil {
						return nil, false, e
					}
					var res any
					ok := false
					switch v := o.(type) {
					case nil:
					case *EIface:
						if it, isI := x.AssertedType.Underlying().(*types.Interface); isI {
							if types.Implements(v.T, it) {
								res, ok = v, true
							}
						} else if types.Identical(v.T, x.AssertedType) {
							res, ok = v.V, true
						}
					default:
						return nil, false, notEval("type assertion on %T", o)
					}
					if x.CommaOk {
						if !ok {
							res = ZeroOf(x.AssertedType)
						}
						env[x] = ETuple{res, ok}
					} else {
						if !ok {
							return nil, false, panics("interface conversion fails")
						}
						env[x] = res
					}
				case *ssa.MakeMap:
					env[x] = &EMap{M: map[any]any{}}
				case *ssa.MapUpdate:
					mv, e := val(x.Map)
					if e != nil {
						return nil, false, e
					}
					kv, e := val(x.Key)
					if e != nil {
						return nil, false, e
					}
					vv, e := val(x.Value)
					if e != nil {
						return nil, false, e
					}
					m, ok := mv.(*EMap)
					if !ok || m == nil {
						return nil, false, panics("assignment to entry in nil map")
					}
					k, okk := mapKey(kv)
					if !okk {
						return nil, false, notEval("map key %T", kv)
					}
					if _, had := m.M[k]; !had {
						m.Keys = append(m.Keys, k)
					}
					m.M[k] = copyVal(vv)
				case *ssa.MakeClosure:
					cl := &EClosure{Fn: x.Fn.(*ssa.Function)}
					for _, b := range x.Bindings {
						bv, e := val(b)
						if e != nil {
							return nil, false, e
						}
						cl.Free = append(cl.Free, bv)
					}
					env[x] = cl
				case *ssa.Range:
					o, e := val(x.X)
					if e != nil {
						return nil, false, e
					}
					if m, isM := o.(*EMap); isM || (o == nil && isMapType(x.X.Type())) {
						it := &mapIter{m: m}
						if m != nil {
							it.keys = append(it.keys, m.Keys...)
							sort.SliceStable(it.keys, func(i, j int) bool { return fmt.Sprint(it.keys[i]) < fmt.Sprint(it.keys[j]) })
						}
						env[x] = it
						break
					}
					str, ok := o.(string)
					if !ok {
						return nil, false, notEval("range over %T", o)
					}
					env[x] = &strIter{s: str}
				case *ssa.Next:
					o, e := val(x.Iter)
					if e != nil {
						return nil, false, e
					}
					if mi, isM := o.(*mapIter); isM {
						for mi.pos < len(mi.keys) {
							k := mi.keys[mi.pos]
							mi.pos++
							if v, still := mi.m.M[k]; still {
								env[x] = ETuple{true, k, copyVal(v)}
								goto nextDone
							}
						}
						env[x] = ETuple{false, nil, nil}
					nextDone:
						break
					}
					it, ok := o.(*strIter)
					if !ok || !x.IsString {
						return nil, false, notEval("next of %T", o)
					}
					if it.pos >= len(it.s) {
						env[x] = ETuple{false, int64(0), int64(0)}
					} else {
						r, w := utf8.DecodeRuneInString(it.s[it.pos:])
						env[x] = ETuple{true, int64(it.pos), int64(r)}
						it.pos += w
					}
				case *ssa.Defer:
					// arguments are evaluated now, the call is made when the function returns
					cc := x.Call
					frozen := map[ssa.Value]any{}
					okAll := true
					for _, a := range cc.Args {
						v, e := val(a)
						if e != nil {
							okAll = false
							break
						}
						frozen[a] = v
					}
					var fv any
					if _, isBuiltin := cc.Value.(*ssa.Builtin); okAll && cc.StaticCallee() == nil && !cc.IsInvoke() && !isBuiltin {
						v, e := val(cc.Value)
						if e != nil {
							okAll = false
						}
						fv = v
					}
					if okAll {
						ccCopy := cc
						defers = append(defers, func() *EvalError {
							_, e := ev.callCommon(&ccCopy, func(v ssa.Value) (any, *EvalError) {
								if r, ok := frozen[v]; ok {
									return r, nil
								}
								if v == ccCopy.Value && fv != nil {
									return fv, nil
								}
								return val(v)
							}, depth)
							return e
						})
					} else {
						return nil, false, notEval("deferred call with arguments that cannot be evaluated")
					}
				case *ssa.RunDefers:
					for i := len(defers) - 1; i >= 0; i-- {
						if e := defers[i](); e != nil {
							return nil, false, e // a deferred call that cannot be evaluated ends the evaluation too
						}
					}
					defers = nil
				case *ssa.Extract:
					o, e := val(x.Tuple)
					if e != nil {
						return nil, false, e
					}
					t, ok := o.(ETuple)
					if !ok || x.Index >= len(t) {
						return nil, false, notEval("extract from %T", o)
					}
					env[x] = t[x.Index]
				case *ssa.Call:
					r, e := ev.call(x, val, depth)
					if e != nil {
						return nil, false, e
					}
					env[x] = r
				case *ssa.If:
					cv, e := val(x.Cond)
					if e != nil {
						return nil, false, e
					}
					bv, ok := cv.(bool)
					if !ok {
						return nil, false, notEval("condition %T", cv)
					}
					if bv {
						next = b.Succs[0]
					} else {
						next = b.Succs[1]
					}
				case *ssa.Jump:
					next = b.Succs[0]
				case *ssa.Return:
					if len(x.Results) == 0 {
						return nil, true, nil
					}
					if len(x.Results) == 1 {
						r, e := val(x.Results[0])
						return r, true, e
					}
					var t ETuple
					for _, rv := range x.Results {
						r, e := val(rv)
						if e != nil {
							return nil, false, e
						}
						t = append(t, r)
					}
					return t, true, nil
				case *ssa.Panic:
					return nil, false, panics("explicit panic")
				default:
					return nil, false, notEval("instruction %T", in)
				}
				return nil, false, nil
			}()
			if serr != nil {
				if ev.tolerant && !serr.Panic {
					if v, isVal := in.(ssa.Value); isVal {
						env[v] = poison{}
						continue
					}
					if st, isSt := in.(*ssa.Store); isSt {
						if a, e := val(st.Addr); e == nil {
							if p, ok := a.(*EPtr); ok && p != nil {
								p.Set(poison{})
							}
						}
						continue
					}
				}
				return nil, serr
			}
			if returned {
				return ret, nil
			}
		}
		if next == nil {
			return nil, notEval("block without successor")
		}
		prev, b = b, next
	}
}

func constVal(c *ssa.Const) (any, *EvalError) {
	if c.Value == nil {
		switch c.Type().Underlying().(type) {
		case *types.Slice:
			return &ESlice{}, nil
		case *types.Struct, *types.Array:
			return ZeroOf(c.Type()), nil
		}
		return nil, nil
	}
	if bt, ok := c.Type().Underlying().(*types.Basic); ok && bt.Info()&types.IsFloat != 0 {
		f, _ := constant.Float64Val(constant.ToFloat(c.Value))
		return f, nil
	}
	switch c.Value.Kind() {
	case constant.Bool:
		return constant.BoolVal(c.Value), nil
	case constant.String:
		return constant.StringVal(c.Value), nil
	case constant.Int:
		if i, ok := constant.Int64Val(c.Value); ok {
			return i, nil
		}
		if u, ok := constant.Uint64Val(c.Value); ok {
			return int64(u), nil
		}
	case constant.Float:
		f, _ := constant.Float64Val(c.Value)
		if bt, ok := c.Type().Underlying().(*types.Basic); ok && bt.Info()&types.IsInteger != 0 {
			return int64(f), nil
		}
		return f, nil
	}
	return nil, notEval("constant %s", c)
}

func binop(x *ssa.BinOp, l, r any) (any, *EvalError) {
	switch a := l.(type) {
	case int64:
		b, ok := r.(int64)
		if !ok {
			return nil, notEval("int %s %T", x.Op, r)
		}
		t := x.X.Type()
		uns := isUnsigned(t)
		switch x.Op {
		case token.ADD:
			return wrapInt(x.Type(), a+b), nil
		case token.SUB:
			return wrapInt(x.Type(), a-b), nil
		case token.MUL:
			return wrapInt(x.Type(), a*b), nil
		case token.QUO:
			if b == 0 {
				return nil, panics("integer divide by zero")
			}
			return wrapInt(x.Type(), a/b), nil
		case token.REM:
			if b == 0 {
				return nil, panics("integer divide by zero")
			}
			return wrapInt(x.Type(), a%b), nil
		case token.AND:
			return wrapInt(x.Type(), a&b), nil
		case token.OR:
			return wrapInt(x.Type(), a|b), nil
		case token.XOR:
			return wrapInt(x.Type(), a^b), nil
		case token.AND_NOT:
			return wrapInt(x.Type(), a&^b), nil
		case token.SHL:
			if b < 0 {
				return nil, panics("negative shift")
			}
			if b >= 64 {
				return int64(0), nil
			}
			return wrapInt(x.Type(), a<<uint(b)), nil
		case token.SHR:
			if b < 0 {
				return nil, panics("negative shift")
			}
			if b >= 64 {
				if a < 0 && !uns {
					return int64(-1), nil
				}
				return int64(0), nil
			}
			if uns {
				return wrapInt(x.Type(), int64(uint64(a)>>uint(b))), nil
			}
			return wrapInt(x.Type(), a>>uint(b)), nil
		case token.EQL:
			return a == b, nil
		case token.NEQ:
			return a != b, nil
		case token.LSS:
			return a < b, nil
		case token.LEQ:
			return a <= b, nil
		case token.GTR:
			return a > b, nil
		case token.GEQ:
			return a >= b, nil
		}
	case float64:
		b, ok := r.(float64)
		if !ok {
			return nil, notEval("float %s %T", x.Op, r)
		}
		switch x.Op {
		case token.ADD:
			return a + b, nil
		case token.SUB:
			return a - b, nil
		case token.MUL:
			return a * b, nil
		case token.QUO:
			return a / b, nil
		case token.EQL:
			return a == b, nil
		case token.NEQ:
			return a != b, nil
		case token.LSS:
			return a < b, nil
		case token.LEQ:
			return a <= b, nil
		case token.GTR:
			return a > b, nil
		case token.GEQ:
			return a >= b, nil
		}
	case bool:
		b, ok := r.(bool)
		if !ok {
			return nil, notEval("bool %s %T", x.Op, r)
		}
		switch x.Op {
		case token.EQL:
			return a == b, nil
		case token.NEQ:
			return a != b, nil
		case token.AND, token.LAND:
			return a && b, nil
		case token.OR, token.LOR:
			return a || b, nil
		}
	case string:
		b, ok := r.(string)
		if !ok {
			return nil, notEval("string %s %T", x.Op, r)
		}
		switch x.Op {
		case token.ADD:
			return a + b, nil
		case token.EQL:
			return a == b, nil
		case token.NEQ:
			return a != b, nil
		case token.LSS:
			return a < b, nil
		case token.LEQ:
			return a <= b, nil
		case token.GTR:
			return a > b, nil
		case token.GEQ:
			return a >= b, nil
		}
	case nil:
		rn := r == nil || isEmptyNilSlice(r)
		if br, ok := r.(*EBytesReader); ok {
			rn = br == nil
		}
		if p, ok := r.(*EPtr); ok && p == nil {
			rn = true
		}
		if m, ok := r.(*EMap); ok && m == nil {
			rn = true
		}
		switch x.Op {
		case token.EQL:
			return rn, nil
		case token.NEQ:
			return !rn, nil
		}
	case *ESlice:
		// comparison of a slice with nil
		if r == nil || isEmptyNilSlice(r) {
			switch x.Op {
			case token.EQL:
				return a.L == nil, nil
			case token.NEQ:
				return a.L != nil, nil
			}
		}
	case *EIface:
		eq := false
		if b, ok := r.(*EIface); ok {
			eq = types.Identical(a.T, b.T) && fmt.Sprint(a.V) == fmt.Sprint(b.V)
			if _, isS := a.V.(*EStruct); isS {
				return nil, notEval("comparison of struct values in interfaces")
			}
		}
		switch x.Op {
		case token.EQL:
			return eq, nil
		case token.NEQ:
			return !eq, nil
		}
	case *EMap:
		if r == nil {
			switch x.Op {
			case token.EQL:
				return a == nil, nil
			case token.NEQ:
				return a != nil, nil
			}
		}
	case *EErr:
		same := false
		if b, ok := r.(*EErr); ok {
			same = a == b
		}
		switch x.Op {
		case token.EQL:
			return same, nil
		case token.NEQ:
			return !same, nil
		}
	case *EPtr:
		same := false
		if b, ok := r.(*EPtr); ok {
			same = a == b || (a != nil && b != nil && a.Loc != nil && a.Loc == b.Loc)
		} else if r == nil {
			same = a == nil
		}
		switch x.Op {
		case token.EQL:
			return same, nil
		case token.NEQ:
			return !same, nil
		}
	}
	// a function value compared with nil
	for _, side := range [][2]any{{l, r}, {r, l}} {
		switch side[0].(type) {
		case *ssa.Function, *EClosure:
			if side[1] == nil && (x.Op == token.EQL || x.Op == token.NEQ) {
				return x.Op == token.NEQ, nil
			}
		}
	}
	// a stand-in object (a reader over known bytes, a scanner) compared with nil or with itself
	if _, isReader := l.(*EBytesReader); isReader && (x.Op == token.EQL || x.Op == token.NEQ) {
		same := l == r
		if x.Op == token.EQL {
			return same, nil
		}
		return !same, nil
	}
	return nil, notEval("%T %s %T", l, x.Op, r)
}

func isEmptyNilSlice(v any) bool {
	s, ok := v.(*ESlice)
	return ok && s.L == nil
}

func convert(x *ssa.Convert, o any) (any, *EvalError) {
	dst := x.Type().Underlying()
	switch v := o.(type) {
	case int64:
		if bt, ok := dst.(*types.Basic); ok {
			if bt.Info()&types.IsInteger != 0 {
				return wrapInt(x.Type(), v), nil
			}
			if bt.Info()&types.IsString != 0 {
				return string(rune(v)), nil
			}
			if bt.Info()&types.IsFloat != 0 {
				return float64(v), nil
			}
		}
	case string:
		if bt, ok := dst.(*types.Basic); ok && bt.Info()&types.IsString != 0 {
			return v, nil
		}
		if sl, ok := dst.(*types.Slice); ok {
			if bt, ok := sl.Elem().Underlying().(*types.Basic); ok && bt.Kind() == types.Uint8 {
				return BytesOf([]byte(v)), nil
			}
			if bt, ok := sl.Elem().Underlying().(*types.Basic); ok && bt.Kind() == types.Int32 {
				out := &ESlice{}
				for _, r := range v {
					out.L = append(out.L, &ELoc{int64(r)})
				}
				return out, nil
			}
		}
	case *ESlice:
		if bt, ok := dst.(*types.Basic); ok && bt.Info()&types.IsString != 0 {
			isRunes := false
			if sl, ok := x.X.Type().Underlying().(*types.Slice); ok {
				if eb, ok := sl.Elem().Underlying().(*types.Basic); ok && eb.Kind() == types.Int32 {
					isRunes = true
				}
			}
			var sb strings.Builder
			for _, l := range v.L {
				b, ok := l.V.(int64)
				if !ok {
					return nil, notEval("string of non-bytes")
				}
				if isRunes {
					sb.WriteRune(rune(b))
				} else {
					sb.WriteByte(byte(b))
				}
			}
			return sb.String(), nil
		}
	case float64:
		if bt, ok := dst.(*types.Basic); ok {
			if bt.Info()&types.IsInteger != 0 {
				return wrapInt(x.Type(), int64(v)), nil
			}
			if bt.Info()&types.IsFloat != 0 {
				return v, nil
			}
		}
	}
	return nil, notEval("conversion of %T to %s", o, x.Type())
}

func (ev *Evaluator) call(x *ssa.Call, val func(ssa.Value) (any, *EvalError), depth int) (any, *EvalError) {
	return ev.callCommon(&x.Call, val, depth)
}

func (ev *Evaluator) callCommon(cc *ssa.CallCommon, val func(ssa.Value) (any, *EvalError), depth int) (any, *EvalError) {
	var args []any
	for _, a := range cc.Args {
		v, e := val(a)
		if e != nil {
			return nil, e
		}
		args = append(args, v)
	}
	if bi, ok := cc.Value.(*ssa.Builtin); ok {
		switch bi.Name() {
		case "len", "cap":
			switch s := args[0].(type) {
			case string:
				return int64(len(s)), nil
			case *ESlice:
				if bi.Name() == "cap" {
					return int64(s.capOf()), nil
				}
				return int64(len(s.L)), nil
			case *EMap:
				return int64(len(s.M)), nil
			case nil:
				return int64(0), nil
			}
		case "copy":
			dst, ok := args[0].(*ESlice)
			if !ok {
				return int64(0), nil
			}
			n := 0
			switch src := args[1].(type) {
			case *ESlice:
				// through a temporary, as copy does for overlapping slices
				tmp := make([]any, 0, len(src.L))
				for _, l := range src.L {
					tmp = append(tmp, copyVal(l.V))
				}
				for i := 0; i < len(dst.L) && i < len(tmp); i++ {
					dst.L[i].V = tmp[i]
					n++
				}
			case string:
				for i := 0; i < len(dst.L) && i < len(src); i++ {
					dst.L[i].V = int64(src[i])
					n++
				}
			}
			return int64(n), nil
		case "delete":
			if m, ok := args[0].(*EMap); ok && m != nil {
				if k, okk := mapKey(args[1]); okk {
					delete(m.M, k)
				}
			}
			return nil, nil
		case "append":
			dst, ok := args[0].(*ESlice)
			if !ok {
				if args[0] == nil {
					dst = &ESlice{}
				} else {
					return nil, notEval("append to %T", args[0])
				}
			}
			var vals []any
			switch src := args[1].(type) {
			case *ESlice:
				for _, l := range src.L {
					vals = append(vals, copyVal(l.V))
				}
			case string:
				for i := 0; i < len(src); i++ {
					vals = append(vals, int64(src[i]))
				}
			case nil:
			default:
				return nil, notEval("append of %T", args[1])
			}
			if n := len(dst.L) + len(vals); len(vals) > 0 && n <= dst.capOf() && n <= cap(dst.L) {
				// it fits: the new elements go into the storage behind the slice, which other slices may share
				full := dst.L[:n]
				for i, v := range vals {
					k := len(dst.L) + i
					if full[k] == nil {
						full[k] = &ELoc{}
					}
					full[k].V = v
				}
				return &ESlice{L: full, C: dst.capOf()}, nil
			}
			// it does not fit: new storage. The runtime gives small slices room to grow (it doubles a capacity below
			// 256 and rounds up to a size class); the model gives the doubling and never more than the runtime does,
			// so two slices appended to from one short base share the spare room here exactly when they do there
			need := len(dst.L) + len(vals)
			newCap := need
			if oc := dst.capOf(); oc > 0 && oc < 256 && need <= 2*oc {
				newCap = 2 * oc
			}
			out := &ESlice{L: make([]*ELoc, 0, newCap), C: newCap}
			out.L = append(out.L, dst.L...)
			for _, v := range vals {
				out.L = append(out.L, &ELoc{v})
			}
			return out, nil
		case "min", "max":
			best, ok := args[0].(int64)
			if !ok {
				return nil, notEval("min/max of %T", args[0])
			}
			for _, a := range args[1:] {
				v, ok := a.(int64)
				if !ok {
					return nil, notEval("min/max of %T", a)
				}
				if (bi.Name() == "min" && v < best) || (bi.Name() == "max" && v > best) {
					best = v
				}
			}
			return best, nil
		}
		return nil, notEval("builtin %s", bi.Name())
	}
	if cc.IsInvoke() {
		recv, e := val(cc.Value)
		if e != nil {
			return nil, e
		}
		if ifc, ok := recv.(*EIface); ok {
			prog := cc.Value.Parent().Prog
			sel := prog.MethodSets.MethodSet(ifc.T).Lookup(cc.Method.Pkg(), cc.Method.Name())
			if sel == nil {
				return nil, notEval("method %s not found on %s", cc.Method.Name(), ifc.T)
			}
			m := prog.MethodValue(sel)
			if m == nil {
				return nil, notEval("method %s of %s has no body", cc.Method.Name(), ifc.T)
			}
			return ev.callFunction(m, append([]any{ifc.V}, args...), depth)
		}
		if recv == nil {
			return nil, panics("method call on a nil interface")
		}
		if br, ok := recv.(*EBytesReader); ok {
			if r, e, handled := readerMethod(br, cc.Method.Name(), args); handled {
				return r, e
			}
		}
		if ev.Invoke != nil {
			if r, e, ok := ev.Invoke(cc.Method.Name(), recv, args); ok {
				return r, e
			}
		}
		return nil, notEval("interface call %s", cc.Method.Name())
	}
	g := cc.StaticCallee()
	if g == nil {
		fv, e := val(cc.Value)
		if e != nil {
			return nil, e
		}
		switch f := fv.(type) {
		case *EClosure:
			return ev.callWith(f.Fn, args, f.Free, depth+1)
		case *ssa.Function:
			if f.Blocks != nil {
				return ev.callWith(f, args, nil, depth+1)
			}
		}
		return nil, notEval("dynamic call")
	}
	if mc, ok := cc.Value.(*ssa.MakeClosure); ok {
		cv, e := val(mc)
		if e != nil {
			return nil, e
		}
		if cl, ok := cv.(*EClosure); ok {
			return ev.callWith(cl.Fn, args, cl.Free, depth+1)
		}
	}
	return ev.callFunction(g, args, depth)
}

// callFunction calls a function by its SSA value: a body of the module (or a synthetic wrapper) is evaluated,
// anything else is answered by the hooks and the library table.
func (ev *Evaluator) callFunction(g *ssa.Function, args []any, depth int) (any, *EvalError) {
	if g.Name() == "init" && g.Pkg != nil && g.Signature.Recv() == nil && g == g.Pkg.Func("init") {
		if strings.HasPrefix(g.Pkg.Pkg.Path(), ModPath) {
			ev.runInit(g.Pkg)
			return nil, nil
		}
		return nil, nil // the initialiser of a library package: nothing the module's values depend on is modelled
	}
	if g.Blocks != nil && (InModule(g) || g.Pkg == nil) {
		return ev.Call(g, args, depth+1)
	}
	switch nm := FuncName(g); nm {
	case "bufio.NewScanner":
		var r *EBytesReader
		switch v := args[0].(type) {
		case *EBytesReader:
			r = v
		case *EIface:
			r, _ = v.V.(*EBytesReader)
		}
		if r == nil {
			return nil, notEval("scanner over %T", args[0])
		}
		return &EScanner{R: r}, nil
	case "bufio.(*Scanner).Split":
		if sc, ok := args[0].(*EScanner); ok {
			sc.Split = args[1]
			return nil, nil
		}
	case "bufio.(*Scanner).Buffer":
		return nil, nil
	case "bufio.(*Scanner).Err":
		return nil, nil
	case "bufio.(*Scanner).Text", "bufio.(*Scanner).Bytes":
		if sc, ok := args[0].(*EScanner); ok {
			if nm == "bufio.(*Scanner).Text" {
				return string(sc.Tok), nil
			}
			return BytesOf(sc.Tok), nil
		}
	case "bufio.(*Scanner).Scan":
		if sc, ok := args[0].(*EScanner); ok {
			if sc.Done {
				return false, nil
			}
			rest := sc.R.Data[sc.R.Pos:]
			var adv int
			var tok []byte
			haveTok := false
			switch f := sc.Split.(type) {
			case nil:
				a, t, _ := bufio.ScanLines(rest, true)
				adv, tok, haveTok = a, t, t != nil
			case *EClosure, *ssa.Function:
				var r any
				var e *EvalError
				if cl, isCl := f.(*EClosure); isCl {
					r, e = ev.callWith(cl.Fn, []any{BytesOf(rest), true}, cl.Free, depth+1)
				} else {
					r, e = ev.callWith(f.(*ssa.Function), []any{BytesOf(rest), true}, nil, depth+1)
				}
				if e != nil {
					return nil, e
				}
				t, ok := r.(ETuple)
				if !ok || len(t) != 3 {
					return nil, notEval("split function result")
				}
				a, _ := t[0].(int64)
				adv = int(a)
				if ts, ok := t[1].(*ESlice); ok && ts.L != nil {
					haveTok = true
					for _, l := range ts.L {
						b, _ := l.V.(int64)
						tok = append(tok, byte(b))
					}
				}
				if t[2] != nil {
					sc.Done = true
					return false, nil
				}
			default:
				return nil, notEval("split function %T", sc.Split)
			}
			if adv < 0 || adv > len(rest) {
				return nil, panics("bufio.Scanner: SplitFunc returns advance count beyond input")
			}
			sc.R.Pos += adv
			if !haveTok {
				sc.Done = true
				return false, nil
			}
			if tok == nil {
				tok = []byte{}
			}
			sc.Tok = tok
			if adv == 0 && len(rest) == 0 {
				sc.Done = true
			}
			return true, nil
		}
	case "sort.Slice", "sort.SliceStable":
		// the slice is sorted in place by calling the comparison function of the evaluated code
		var sl *ESlice
		switch v := args[0].(type) {
		case *EIface:
			sl, _ = v.V.(*ESlice)
		case *ESlice:
			sl = v
		}
		if sl == nil {
			if ifc, ok := args[0].(*EIface); ok && ifc.V == nil {
				return nil, nil
			}
			return nil, notEval("%s of %T", nm, args[0])
		}
		var failed *EvalError
		less := func(i, j int) bool {
			if failed != nil {
				return false
			}
			var r any
			var e *EvalError
			switch f := args[1].(type) {
			case *EClosure:
				r, e = ev.callWith(f.Fn, []any{int64(i), int64(j)}, f.Free, depth+1)
			case *ssa.Function:
				r, e = ev.callWith(f, []any{int64(i), int64(j)}, nil, depth+1)
			default:
				e = notEval("comparison function %T", args[1])
			}
			if e != nil {
				failed = e
				return false
			}
			b, _ := r.(bool)
			return b
		}
		srt := &evalSorter{l: sl.L, less: less}
		if nm == "sort.Slice" {
			sort.Sort(srt)
		} else {
			sort.Stable(srt)
		}
		return nil, failed
	case "sort.Strings", "sort.Ints", "sort.Float64s":
		if sl, ok := args[0].(*ESlice); ok {
			sort.SliceStable(sl.L, func(i, j int) bool {
				switch a := sl.L[i].V.(type) {
				case string:
					b, _ := sl.L[j].V.(string)
					return a < b
				case int64:
					b, _ := sl.L[j].V.(int64)
					return a < b
				case float64:
					b, _ := sl.L[j].V.(float64)
					return a < b
				}
				return false
			})
			return nil, nil
		}
	}
	if nm := FuncName(g); nm == "encoding/xml.Unmarshal" && len(args) == 2 {
		if ifc, ok := args[1].(*EIface); ok {
			if target, ok := ifc.V.(*EPtr); ok && target != nil {
				if data, ok := bytesOfVal(args[0]); ok {
					return xmlUnmarshal(data, target, ifc.T)
				}
			}
		}
		return nil, notEval("xml.Unmarshal into %T", args[1])
	}
	// library functions see the values interface values hold
	for i, a := range args {
		if ifc, ok := a.(*EIface); ok {
			args[i] = ifc.V
		}
	}
	if ev.External != nil {
		if r, e, ok := ev.External(g, args); ok {
			return r, e
		}
	}
	// text accumulators: bytes.Buffer and strings.Builder locals
	if nm := FuncName(g); strings.HasPrefix(nm, "bytes.(*Buffer).") || strings.HasPrefix(nm, "strings.(*Builder).") {
		recv, ok := args[0].(*EPtr)
		if !ok || recv == nil {
			return nil, notEval("accumulator method on %T", args[0])
		}
		// the accumulator is identified by the struct value it lives in (a field address is a new pointer each time)
		home, isStruct := recv.Get().(*EStruct)
		if !isStruct {
			return nil, notEval("accumulator stored as %T", recv.Get())
		}
		if ev.bufs == nil {
			ev.bufs = map[*EStruct]*[]byte{}
		}
		buf := ev.bufs[home]
		if buf == nil {
			buf = new([]byte)
			ev.bufs[home] = buf
		}
		switch g.Name() {
		case "WriteByte":
			b, ok := args[1].(int64)
			if !ok {
				return nil, notEval("WriteByte of %T", args[1])
			}
			*buf = append(*buf, byte(b))
			return nil, nil
		case "WriteRune":
			r, ok := args[1].(int64)
			if !ok {
				return nil, notEval("WriteRune of %T", args[1])
			}
			*buf = utf8.AppendRune(*buf, rune(r))
			return ETuple{int64(utf8.RuneLen(rune(r))), nil}, nil
		case "WriteString":
			sv, ok := args[1].(string)
			if !ok {
				return nil, notEval("WriteString of %T", args[1])
			}
			*buf = append(*buf, sv...)
			return ETuple{int64(len(sv)), nil}, nil
		case "Write":
			sl, ok := args[1].(*ESlice)
			if !ok {
				return nil, notEval("Write of %T", args[1])
			}
			for _, l := range sl.L {
				b, ok := l.V.(int64)
				if !ok {
					return nil, notEval("Write of non-bytes")
				}
				*buf = append(*buf, byte(b))
			}
			return ETuple{int64(len(sl.L)), nil}, nil
		case "Len":
			return int64(len(*buf)), nil
		case "Bytes":
			return BytesOf(*buf), nil
		case "String":
			return string(*buf), nil
		case "Reset":
			*buf = nil
			return nil, nil
		case "Grow":
			return nil, nil
		}
		return nil, notEval("call of %s", nm)
	}
	switch FuncName(g) {
	case "fmt.Errorf", "errors.New":
		msg, _ := args[0].(string)
		return &EErr{Msg: msg}, nil
	case "html.UnescapeString", "golang.org/x/net/html.UnescapeString":
		if sv, ok := args[0].(string); ok {
			return stdhtml.UnescapeString(sv), nil
		}
	case "html.EscapeString", "golang.org/x/net/html.EscapeString":
		if sv, ok := args[0].(string); ok {
			return stdhtml.EscapeString(sv), nil
		}
	case "compress/zlib.NewReader", "compress/flate.NewReader":
		if r, ok := args[0].(*EBytesReader); ok {
			// the library's decompressor, run on the known bytes: what it produces, and the error it ends with
			var zr io.Reader
			if FuncName(g) == "compress/zlib.NewReader" {
				z, err := zlib.NewReader(bytes.NewReader(r.Data[r.Pos:]))
				if err != nil {
					return ETuple{nil, &EErr{Msg: err.Error()}}, nil
				}
				zr = z
			} else {
				zr = flate.NewReader(bytes.NewReader(r.Data[r.Pos:]))
			}
			out, err := io.ReadAll(io.LimitReader(zr, 1<<22))
			res := &EBytesReader{Data: out}
			if err != nil {
				res.Tail = &EErr{Msg: err.Error()}
				if err == io.ErrUnexpectedEOF {
					res.Tail = ErrUnexpectedEOF
				}
			}
			if FuncName(g) == "compress/zlib.NewReader" {
				return ETuple{res, nil}, nil
			}
			return res, nil
		}
	case "io.ReadAll":
		if r, ok := args[0].(*EBytesReader); ok {
			rest := r.Data[r.Pos:]
			r.Pos = len(r.Data)
			var e any
			if r.Tail != nil {
				e = r.Tail
			}
			return ETuple{BytesOf(rest), e}, nil
		}
	case "io.LimitReader":
		if r, ok := args[0].(*EBytesReader); ok {
			n, _ := args[1].(int64)
			rest := r.Data[r.Pos:]
			if n < 0 {
				n = 0
			}
			if int64(len(rest)) > n {
				return &EBytesReader{Data: rest[:n]}, nil
			}
			return &EBytesReader{Data: rest, Tail: r.Tail}, nil
		}
	case "io.Copy":
		if r, ok := args[1].(*EBytesReader); ok {
			if dst, ok := args[0].(*EPtr); ok && dst != nil {
				if home, ok := dst.Get().(*EStruct); ok {
					if ev.bufs == nil {
						ev.bufs = map[*EStruct]*[]byte{}
					}
					buf := ev.bufs[home]
					if buf == nil {
						buf = new([]byte)
						ev.bufs[home] = buf
					}
					rest := r.Data[r.Pos:]
					r.Pos = len(r.Data)
					*buf = append(*buf, rest...)
					var e any
					if r.Tail != nil {
						e = r.Tail
					}
					return ETuple{int64(len(rest)), e}, nil
				}
			}
		}
	case "path.Join", "path/filepath.Join":
		if parts, ok := stringsOf(args[0]); ok {
			return path.Join(parts...), nil
		}
	case "path.Clean", "path/filepath.Clean":
		if sv, ok := args[0].(string); ok {
			return path.Clean(sv), nil
		}
	case "path.Dir", "path/filepath.Dir":
		if sv, ok := args[0].(string); ok {
			return path.Dir(sv), nil
		}
	case "path.IsAbs":
		if sv, ok := args[0].(string); ok {
			return path.IsAbs(sv), nil
		}
	case "net/url.PathUnescape":
		if sv, ok := args[0].(string); ok {
			out, err := url.PathUnescape(sv)
			if err != nil {
				return ETuple{"", &EErr{Msg: err.Error()}}, nil
			}
			return ETuple{out, nil}, nil
		}
	case "net/url.QueryUnescape":
		if sv, ok := args[0].(string); ok {
			out, err := url.QueryUnescape(sv)
			if err != nil {
				return ETuple{"", &EErr{Msg: err.Error()}}, nil
			}
			return ETuple{out, nil}, nil
		}
	case "path/filepath.Ext", "path.Ext":
		if sv, ok := args[0].(string); ok {
			return path.Ext(sv), nil
		}
	case "path/filepath.Base", "path.Base":
		if sv, ok := args[0].(string); ok {
			return path.Base(sv), nil
		}
	case "golang.org/x/net/html.Parse":
		if r, ok := args[0].(*EBytesReader); ok {
			data := r.Data[r.Pos:]
			r.Pos = len(r.Data)
			return htmlTree(g.Signature.Results().At(0).Type(), data)
		}
	case "bytes.NewReader":
		if sl, ok := args[0].(*ESlice); ok {
			var data []byte
			for _, l := range sl.L {
				b, _ := l.V.(int64)
				data = append(data, byte(b))
			}
			return &EBytesReader{Data: data}, nil
		}
	case "fmt.Sscanf":
		// one integer verb: Sscanf(s, "%d", &n)
		if sv, ok := args[0].(string); ok && len(args) == 3 {
			if f, _ := args[1].(string); f == "%d" {
				if vs, ok := args[2].(*ESlice); ok && len(vs.L) == 1 {
					target := vs.L[0].V
					if ifc, ok := target.(*EIface); ok {
						target = ifc.V
					}
					if p, ok := target.(*EPtr); ok && p != nil {
						end := 0
						for end < len(sv) && (sv[end] >= '0' && sv[end] <= '9' || end == 0 && (sv[end] == '-' || sv[end] == '+')) {
							end++
						}
						n, err := strconv.ParseInt(sv[:end], 10, 64)
						if err != nil {
							return ETuple{int64(0), &EErr{Msg: "expected integer"}}, nil
						}
						p.Set(n)
						return ETuple{int64(1), nil}, nil
					}
				}
			}
		}
	case "io.ReadFull":
		if r, ok := args[0].(*EBytesReader); ok {
			if buf, ok := args[1].(*ESlice); ok {
				n := 0
				for n < len(buf.L) && r.Pos < len(r.Data) {
					buf.L[n].V = int64(r.Data[r.Pos])
					n++
					r.Pos++
				}
				switch {
				case n == len(buf.L):
					return ETuple{int64(n), nil}, nil
				case n == 0:
					return ETuple{int64(0), ErrEOF}, nil
				}
				return ETuple{int64(n), ErrUnexpectedEOF}, nil
			}
		}
	case "io.NewSectionReader":
		if r, ok := args[0].(*EBytesReader); ok {
			off, _ := args[1].(int64)
			n, _ := args[2].(int64)
			if off < 0 || off > int64(len(r.Data)) {
				off = int64(len(r.Data))
			}
			end := off + n
			if n < 0 || end > int64(len(r.Data)) {
				end = int64(len(r.Data))
			}
			return &EBytesReader{Data: r.Data[off:end]}, nil
		}
	case "strings.NewReader":
		if sv, ok := args[0].(string); ok {
			return &EBytesReader{Data: []byte(sv)}, nil
		}
	case "bytes.(*Reader).Len", "strings.(*Reader).Len":
		if r, ok := args[0].(*EBytesReader); ok {
			return int64(len(r.Data) - r.Pos), nil
		}
	case "bytes.(*Reader).ReadByte", "strings.(*Reader).ReadByte":
		if r, ok := args[0].(*EBytesReader); ok {
			if r.Pos >= len(r.Data) {
				return ETuple{int64(0), ErrEOF}, nil
			}
			r.Pos++
			return ETuple{int64(r.Data[r.Pos-1]), nil}, nil
		}
	case "bytes.(*Reader).UnreadByte", "strings.(*Reader).UnreadByte":
		if r, ok := args[0].(*EBytesReader); ok {
			if r.Pos > 0 {
				r.Pos--
			}
			return nil, nil
		}
	case "strings.NewReplacer":
		if ss, ok := stringsOf(args[0]); ok && len(ss)%2 == 0 {
			return strings.NewReplacer(ss...), nil
		}
	case "strings.(*Replacer).Replace":
		if rp, ok := args[0].(*strings.Replacer); ok && rp != nil {
			if sv, ok := args[1].(string); ok {
				return rp.Replace(sv), nil
			}
		}
	case "regexp.MustCompile", "regexp.Compile":
		if pat, ok := args[0].(string); ok {
			re, err := regexp.Compile(pat)
			if FuncName(g) == "regexp.Compile" {
				if err != nil {
					return ETuple{nil, &EErr{Msg: err.Error()}}, nil
				}
				return ETuple{re, nil}, nil
			}
			if err != nil {
				return nil, panics("regexp: %v", err)
			}
			return re, nil
		}
	case "regexp.(*Regexp).MatchString", "regexp.(*Regexp).FindString", "regexp.(*Regexp).FindStringSubmatch", "regexp.(*Regexp).FindStringIndex", "regexp.(*Regexp).FindAllString", "regexp.(*Regexp).ReplaceAllString", "regexp.(*Regexp).String":
		re, ok := args[0].(*regexp.Regexp)
		if !ok || re == nil {
			return nil, notEval("regular expression value %T", args[0])
		}
		str := func(i int) string { v, _ := args[i].(string); return v }
		switch g.Name() {
		case "MatchString":
			return re.MatchString(str(1)), nil
		case "FindString":
			return re.FindString(str(1)), nil
		case "FindStringSubmatch":
			m := re.FindStringSubmatch(str(1))
			if m == nil {
				return &ESlice{}, nil
			}
			return sliceOfStrings(m), nil
		case "FindStringIndex":
			m := re.FindStringIndex(str(1))
			if m == nil {
				return &ESlice{}, nil
			}
			return SliceOf(int64(m[0]), int64(m[1])), nil
		case "FindAllString":
			k, _ := args[2].(int64)
			m := re.FindAllString(str(1), int(k))
			if m == nil {
				return &ESlice{}, nil
			}
			return sliceOfStrings(m), nil
		case "ReplaceAllString":
			return re.ReplaceAllString(str(1), str(2)), nil
		case "String":
			return re.String(), nil
		}
	case "bufio.NewReader", "bufio.NewReaderSize":
		if r, ok := args[0].(*EBytesReader); ok {
			return r, nil
		}
	case "bufio.(*Reader).ReadByte":
		if r, ok := args[0].(*EBytesReader); ok {
			if r.Pos >= len(r.Data) {
				return ETuple{int64(0), ErrEOF}, nil
			}
			r.Pos++
			return ETuple{int64(r.Data[r.Pos-1]), nil}, nil
		}
	case "bufio.(*Reader).UnreadByte":
		if r, ok := args[0].(*EBytesReader); ok {
			if r.Pos > 0 {
				r.Pos--
			}
			return nil, nil
		}
	case "bufio.(*Reader).Peek":
		if r, ok := args[0].(*EBytesReader); ok {
			n, _ := args[1].(int64)
			end := r.Pos + int(n)
			if n < 0 {
				return ETuple{&ESlice{}, &EErr{Msg: "negative count"}}, nil
			}
			if end > len(r.Data) {
				return ETuple{BytesOf(r.Data[r.Pos:]), ErrEOF}, nil
			}
			return ETuple{BytesOf(r.Data[r.Pos:end]), nil}, nil
		}
	case "bufio.(*Reader).Discard":
		if r, ok := args[0].(*EBytesReader); ok {
			n, _ := args[1].(int64)
			if r.Pos+int(n) > len(r.Data) {
				k := len(r.Data) - r.Pos
				r.Pos = len(r.Data)
				return ETuple{int64(k), ErrEOF}, nil
			}
			r.Pos += int(n)
			return ETuple{n, nil}, nil
		}
	case "bufio.(*Reader).Buffered":
		if r, ok := args[0].(*EBytesReader); ok {
			return int64(len(r.Data) - r.Pos), nil
		}
	case "strconv.ParseFloat":
		if sv, ok := args[0].(string); ok {
			bits, _ := args[1].(int64)
			f, err := strconv.ParseFloat(sv, int(bits))
			if err != nil {
				return ETuple{f, &EErr{Msg: err.Error()}}, nil
			}
			return ETuple{f, nil}, nil
		}
	case "fmt.Sprintf":
		// basic values only (numbers, strings, booleans); a value with a String method would print differently
		if format, ok := args[0].(string); ok {
			var goArgs []any
			if sl, ok := args[1].(*ESlice); ok {
				for _, l := range sl.L {
					v := l.V
					if ifc, ok := v.(*EIface); ok {
						v = ifc.V
						if bt, isB := ifc.T.Underlying().(*types.Basic); isB && bt.Kind() == types.Uint8 {
							if iv, ok := v.(int64); ok {
								v = byte(iv)
							}
						}
						if bt, isB := ifc.T.Underlying().(*types.Basic); isB && bt.Kind() == types.Int32 {
							if iv, ok := v.(int64); ok {
								v = rune(iv)
							}
						}
					}
					switch v.(type) {
					case int64, string, bool, float64, byte, rune, nil:
					default:
						v = "?"
					}
					goArgs = append(goArgs, v)
				}
			}
			return fmt.Sprintf(format, goArgs...), nil
		}
	case "encoding/hex.DecodeString":
		if sv, ok := args[0].(string); ok {
			b, err := hex.DecodeString(sv)
			if err != nil {
				return ETuple{&ESlice{}, &EErr{Msg: err.Error()}}, nil
			}
			return ETuple{BytesOf(b), nil}, nil
		}
	case "unicode/utf16.Decode":
		if sl, ok := args[0].(*ESlice); ok {
			var units []uint16
			for _, l := range sl.L {
				u, _ := l.V.(int64)
				units = append(units, uint16(u))
			}
			out := &ESlice{}
			for _, r := range utf16.Decode(units) {
				out.L = append(out.L, &ELoc{int64(r)})
			}
			return out, nil
		}
	case "unicode/utf16.DecodeRune":
		a, ok1 := args[0].(int64)
		b, ok2 := args[1].(int64)
		if ok1 && ok2 {
			return int64(utf16.DecodeRune(rune(a), rune(b))), nil
		}
	case "unicode/utf16.IsSurrogate":
		if a, ok := args[0].(int64); ok {
			return utf16.IsSurrogate(rune(a)), nil
		}
	case "strconv.ParseUint", "strconv.ParseInt":
		sv, ok0 := args[0].(string)
		base, ok1 := args[1].(int64)
		bits, ok2 := args[2].(int64)
		if ok0 && ok1 && ok2 {
			if FuncName(g) == "strconv.ParseUint" {
				v, err := strconv.ParseUint(sv, int(base), int(bits))
				if err != nil {
					return ETuple{int64(v), &EErr{Msg: err.Error()}}, nil
				}
				return ETuple{int64(v), nil}, nil
			}
			v, err := strconv.ParseInt(sv, int(base), int(bits))
			if err != nil {
				return ETuple{v, &EErr{Msg: err.Error()}}, nil
			}
			return ETuple{v, nil}, nil
		}
	case "strconv.Atoi":
		if sv, ok := args[0].(string); ok {
			v, err := strconv.Atoi(sv)
			if err != nil {
				return ETuple{int64(v), &EErr{Msg: err.Error()}}, nil
			}
			return ETuple{int64(v), nil}, nil
		}
	case "strconv.Itoa":
		if v, ok := args[0].(int64); ok {
			return strconv.Itoa(int(v)), nil
		}
	}
	if r, e, ok := libraryCall(FuncName(g), args); ok {
		return r, e
	}
	// the few library functions small helpers use
	str := func(i int) (string, bool) { s, ok := args[i].(string); return s, ok }
	switch FuncName(g) {
	case "strings.HasPrefix", "strings.HasSuffix", "strings.Contains", "strings.EqualFold":
		a, ok1 := str(0)
		b, ok2 := str(1)
		if ok1 && ok2 {
			switch g.Name() {
			case "HasPrefix":
				return strings.HasPrefix(a, b), nil
			case "HasSuffix":
				return strings.HasSuffix(a, b), nil
			case "Contains":
				return strings.Contains(a, b), nil
			case "EqualFold":
				return strings.EqualFold(a, b), nil
			}
		}
	case "strings.TrimSpace", "strings.ToLower", "strings.ToUpper":
		if a, ok := str(0); ok {
			switch g.Name() {
			case "TrimSpace":
				return strings.TrimSpace(a), nil
			case "ToLower":
				return strings.ToLower(a), nil
			case "ToUpper":
				return strings.ToUpper(a), nil
			}
		}
	case "strings.TrimPrefix", "strings.TrimSuffix":
		a, ok1 := str(0)
		b, ok2 := str(1)
		if ok1 && ok2 {
			if g.Name() == "TrimPrefix" {
				return strings.TrimPrefix(a, b), nil
			}
			return strings.TrimSuffix(a, b), nil
		}
	case "strings.Index", "strings.LastIndex":
		a, ok1 := str(0)
		b, ok2 := str(1)
		if ok1 && ok2 {
			if g.Name() == "Index" {
				return int64(strings.Index(a, b)), nil
			}
			return int64(strings.LastIndex(a, b)), nil
		}
	}
	return nil, notEval("call of %s", FuncName(g))
}

// ConstInt64 reads an integer constant value.
func ConstInt64(v constant.Value) (int64, bool) {
	if v == nil || v.Kind() != constant.Int {
		return 0, false
	}
	return constant.Int64Val(v)
}

func stringsOf(v any) ([]string, bool) {
	sl, ok := v.(*ESlice)
	if !ok {
		return nil, v == nil
	}
	var out []string
	for _, l := range sl.L {
		s, ok := l.V.(string)
		if !ok {
			return nil, false
		}
		out = append(out, s)
	}
	return out, true
}

func sliceOfStrings(ss []string) *ESlice {
	out := &ESlice{}
	for _, s := range ss {
		out.L = append(out.L, &ELoc{s})
	}
	return out
}

// libraryCall models pure functions of strings, unicode, unicode/utf8 and math on concrete values.
func libraryCall(name string, args []any) (any, *EvalError, bool) {
	s := func(i int) string { v, _ := args[i].(string); return v }
	isS := func(is ...int) bool {
		for _, i := range is {
			if i >= len(args) {
				return false
			}
			if _, ok := args[i].(string); !ok {
				return false
			}
		}
		return true
	}
	n := func(i int) int64 { v, _ := args[i].(int64); return v }
	isN := func(i int) bool { _, ok := args[i].(int64); return i < len(args) && ok }
	switch name {
	case "strings.Fields":
		if isS(0) {
			return sliceOfStrings(strings.Fields(s(0))), nil, true
		}
	case "strings.Split":
		if isS(0, 1) {
			return sliceOfStrings(strings.Split(s(0), s(1))), nil, true
		}
	case "strings.SplitN":
		if isS(0, 1) && isN(2) {
			return sliceOfStrings(strings.SplitN(s(0), s(1), int(n(2)))), nil, true
		}
	case "strings.Join":
		if ss, ok := stringsOf(args[0]); ok && isS(1) {
			return strings.Join(ss, s(1)), nil, true
		}
	case "strings.ReplaceAll":
		if isS(0, 1, 2) {
			return strings.ReplaceAll(s(0), s(1), s(2)), nil, true
		}
	case "strings.Replace":
		if isS(0, 1, 2) && isN(3) {
			return strings.Replace(s(0), s(1), s(2), int(n(3))), nil, true
		}
	case "strings.Repeat":
		if isS(0) && isN(1) {
			if n(1) < 0 || n(1)*int64(len(s(0))) > 1<<20 {
				return nil, panics("strings.Repeat count"), true
			}
			return strings.Repeat(s(0), int(n(1))), nil, true
		}
	case "strings.Count":
		if isS(0, 1) {
			return int64(strings.Count(s(0), s(1))), nil, true
		}
	case "strings.IndexByte", "strings.LastIndexByte":
		if isS(0) && isN(1) {
			if name == "strings.IndexByte" {
				return int64(strings.IndexByte(s(0), byte(n(1)))), nil, true
			}
			return int64(strings.LastIndexByte(s(0), byte(n(1)))), nil, true
		}
	case "strings.IndexRune", "strings.ContainsRune":
		if isS(0) && isN(1) {
			if name == "strings.IndexRune" {
				return int64(strings.IndexRune(s(0), rune(n(1)))), nil, true
			}
			return strings.ContainsRune(s(0), rune(n(1))), nil, true
		}
	case "strings.IndexAny", "strings.LastIndexAny", "strings.ContainsAny":
		if isS(0, 1) {
			switch name {
			case "strings.IndexAny":
				return int64(strings.IndexAny(s(0), s(1))), nil, true
			case "strings.LastIndexAny":
				return int64(strings.LastIndexAny(s(0), s(1))), nil, true
			}
			return strings.ContainsAny(s(0), s(1)), nil, true
		}
	case "strings.Trim", "strings.TrimLeft", "strings.TrimRight":
		if isS(0, 1) {
			switch name {
			case "strings.Trim":
				return strings.Trim(s(0), s(1)), nil, true
			case "strings.TrimLeft":
				return strings.TrimLeft(s(0), s(1)), nil, true
			}
			return strings.TrimRight(s(0), s(1)), nil, true
		}
	case "strings.Title":
		if isS(0) {
			return strings.Title(s(0)), nil, true
		}
	case "unicode.IsSpace", "unicode.IsUpper", "unicode.IsLower", "unicode.IsLetter", "unicode.IsDigit", "unicode.IsPunct", "unicode.IsNumber", "unicode.IsControl", "unicode.IsPrint", "unicode.IsGraphic", "unicode.IsSymbol", "unicode.IsMark":
		if isN(0) {
			r := rune(n(0))
			switch name {
			case "unicode.IsSpace":
				return unicode.IsSpace(r), nil, true
			case "unicode.IsUpper":
				return unicode.IsUpper(r), nil, true
			case "unicode.IsLower":
				return unicode.IsLower(r), nil, true
			case "unicode.IsLetter":
				return unicode.IsLetter(r), nil, true
			case "unicode.IsDigit":
				return unicode.IsDigit(r), nil, true
			case "unicode.IsPunct":
				return unicode.IsPunct(r), nil, true
			case "unicode.IsNumber":
				return unicode.IsNumber(r), nil, true
			case "unicode.IsControl":
				return unicode.IsControl(r), nil, true
			case "unicode.IsPrint":
				return unicode.IsPrint(r), nil, true
			case "unicode.IsGraphic":
				return unicode.IsGraphic(r), nil, true
			case "unicode.IsSymbol":
				return unicode.IsSymbol(r), nil, true
			case "unicode.IsMark":
				return unicode.IsMark(r), nil, true
			}
		}
	case "unicode.ToUpper", "unicode.ToLower":
		if isN(0) {
			if name == "unicode.ToUpper" {
				return int64(unicode.ToUpper(rune(n(0)))), nil, true
			}
			return int64(unicode.ToLower(rune(n(0)))), nil, true
		}
	case "unicode/utf8.RuneStart":
		if isN(0) {
			return utf8.RuneStart(byte(n(0))), nil, true
		}
	case "unicode/utf8.RuneLen":
		if isN(0) {
			return int64(utf8.RuneLen(rune(n(0)))), nil, true
		}
	case "unicode/utf8.ValidRune":
		if isN(0) {
			return utf8.ValidRune(rune(n(0))), nil, true
		}
	case "golang.org/x/text/unicode/norm.Form.String":
		if isN(0) && isS(1) && n(0) >= 0 && n(0) <= 3 {
			return norm.Form(n(0)).String(s(1)), nil, true
		}
	case "golang.org/x/text/unicode/norm.Form.IsNormalString":
		if isN(0) && isS(1) && n(0) >= 0 && n(0) <= 3 {
			return norm.Form(n(0)).IsNormalString(s(1)), nil, true
		}
	case "unicode/utf8.RuneCountInString":
		if isS(0) {
			return int64(utf8.RuneCountInString(s(0))), nil, true
		}
	case "unicode/utf8.ValidString":
		if isS(0) {
			return utf8.ValidString(s(0)), nil, true
		}
	case "unicode/utf8.DecodeRuneInString", "unicode/utf8.DecodeLastRuneInString":
		if isS(0) {
			var r rune
			var w int
			if name == "unicode/utf8.DecodeRuneInString" {
				r, w = utf8.DecodeRuneInString(s(0))
			} else {
				r, w = utf8.DecodeLastRuneInString(s(0))
			}
			return ETuple{int64(r), int64(w)}, nil, true
		}
	case "math.Floor", "math.Ceil", "math.Abs", "math.Round", "math.Sqrt":
		if f, ok := args[0].(float64); ok {
			switch name {
			case "math.Floor":
				return math.Floor(f), nil, true
			case "math.Ceil":
				return math.Ceil(f), nil, true
			case "math.Abs":
				return math.Abs(f), nil, true
			case "math.Round":
				return math.Round(f), nil, true
			case "math.Sqrt":
				return math.Sqrt(f), nil, true
			}
		}
	case "bytes.HasPrefix", "bytes.HasSuffix", "bytes.Equal", "bytes.Contains", "bytes.Index", "bytes.LastIndex", "bytes.EqualFold", "bytes.Compare":
		a, ok1 := bytesOfVal(args[0])
		b, ok2 := bytesOfVal(args[1])
		if ok1 && ok2 {
			switch name {
			case "bytes.HasPrefix":
				return bytes.HasPrefix(a, b), nil, true
			case "bytes.HasSuffix":
				return bytes.HasSuffix(a, b), nil, true
			case "bytes.Equal":
				return bytes.Equal(a, b), nil, true
			case "bytes.Contains":
				return bytes.Contains(a, b), nil, true
			case "bytes.Index":
				return int64(bytes.Index(a, b)), nil, true
			case "bytes.LastIndex":
				return int64(bytes.LastIndex(a, b)), nil, true
			case "bytes.EqualFold":
				return bytes.EqualFold(a, b), nil, true
			case "bytes.Compare":
				return int64(bytes.Compare(a, b)), nil, true
			}
		}
	case "bytes.IndexByte", "bytes.LastIndexByte":
		if a, ok := bytesOfVal(args[0]); ok && isN(1) {
			if name == "bytes.IndexByte" {
				return int64(bytes.IndexByte(a, byte(n(1)))), nil, true
			}
			return int64(bytes.LastIndexByte(a, byte(n(1)))), nil, true
		}
	case "bytes.IndexAny", "bytes.ContainsAny":
		if a, ok := bytesOfVal(args[0]); ok && isS(1) {
			if name == "bytes.IndexAny" {
				return int64(bytes.IndexAny(a, s(1))), nil, true
			}
			return bytes.ContainsAny(a, s(1)), nil, true
		}
	case "bytes.TrimSpace", "bytes.ToLower", "bytes.ToUpper":
		// the result is a fresh slice here (in Go TrimSpace returns a sub-slice: only the bytes are modelled)
		if a, ok := bytesOfVal(args[0]); ok {
			switch name {
			case "bytes.TrimSpace":
				return BytesOf(bytes.TrimSpace(a)), nil, true
			case "bytes.ToLower":
				return BytesOf(bytes.ToLower(a)), nil, true
			case "bytes.ToUpper":
				return BytesOf(bytes.ToUpper(a)), nil, true
			}
		}
	case "bytes.TrimLeft", "bytes.TrimRight", "bytes.Trim":
		if a, ok := bytesOfVal(args[0]); ok && isS(1) {
			switch name {
			case "bytes.TrimLeft":
				return BytesOf(bytes.TrimLeft(a, s(1))), nil, true
			case "bytes.TrimRight":
				return BytesOf(bytes.TrimRight(a, s(1))), nil, true
			case "bytes.Trim":
				return BytesOf(bytes.Trim(a, s(1))), nil, true
			}
		}
	case "math.Inf":
		if isN(0) {
			return math.Inf(int(n(0))), nil, true
		}
	case "math.IsNaN", "math.IsInf":
		if f, ok := args[0].(float64); ok {
			if name == "math.IsNaN" {
				return math.IsNaN(f), nil, true
			}
			sign, _ := args[1].(int64)
			return math.IsInf(f, int(sign)), nil, true
		}
	case "math.Pow", "math.Mod", "math.Hypot", "math.Atan2":
		a, ok1 := args[0].(float64)
		b, ok2 := args[1].(float64)
		if ok1 && ok2 {
			switch name {
			case "math.Pow":
				return math.Pow(a, b), nil, true
			case "math.Mod":
				return math.Mod(a, b), nil, true
			case "math.Hypot":
				return math.Hypot(a, b), nil, true
			case "math.Atan2":
				return math.Atan2(a, b), nil, true
			}
		}
	case "math.Trunc", "math.Log", "math.Exp", "math.Sin", "math.Cos":
		if f, ok := args[0].(float64); ok {
			switch name {
			case "math.Trunc":
				return math.Trunc(f), nil, true
			case "math.Log":
				return math.Log(f), nil, true
			case "math.Exp":
				return math.Exp(f), nil, true
			case "math.Sin":
				return math.Sin(f), nil, true
			case "math.Cos":
				return math.Cos(f), nil, true
			}
		}
	case "math.Max", "math.Min":
		a, ok1 := args[0].(float64)
		b, ok2 := args[1].(float64)
		if ok1 && ok2 {
			if name == "math.Max" {
				return math.Max(a, b), nil, true
			}
			return math.Min(a, b), nil, true
		}
	}
	return nil, nil, false
}

// runInit evaluates the initialiser of a module package once, tolerantly: what cannot be evaluated (a regular
// expression compiled at start-up, a table filled from another package) poisons the variables it is stored into,
// and only a read of such a variable ends an evaluation.
func (ev *Evaluator) runInit(pkg *ssa.Package) {
	if ev.inited == nil {
		ev.inited = map[*ssa.Package]bool{}
	}
	if ev.inited[pkg] {
		return
	}
	ev.inited[pkg] = true
	fn := pkg.Func("init")
	if fn == nil || fn.Blocks == nil {
		return
	}
	savedT, savedS := ev.tolerant, ev.Steps
	ev.tolerant, ev.Steps = true, 3000000
	ev.callWith(fn, nil, nil, 0)
	ev.tolerant, ev.Steps = savedT, savedS
}

func (ev *Evaluator) globalCell(g *ssa.Global) (*ELoc, *EvalError) {
	ev.runInit(g.Pkg)
	if ev.globals == nil {
		ev.globals = map[*ssa.Global]*ELoc{}
	}
	loc := ev.globals[g]
	if loc == nil {
		loc = &ELoc{V: ZeroOf(g.Type().Underlying().(*types.Pointer).Elem())}
		ev.globals[g] = loc
	}
	if _, bad := loc.V.(poison); bad && !ev.tolerant {
		return nil, notEval("package-level variable %s is initialised by code the evaluator cannot read", g.Name())
	}
	return loc, nil
}

// Method calls the named method of the value an interface value holds (as an interface method call would).
func (ev *Evaluator) Method(prog *ssa.Program, recv any, name string, args ...any) (any, *EvalError) {
	ifc, ok := recv.(*EIface)
	if !ok {
		return nil, notEval("method %s on %T", name, recv)
	}
	ms := prog.MethodSets.MethodSet(ifc.T)
	for i := 0; i < ms.Len(); i++ {
		if sel := ms.At(i); sel.Obj().Name() == name {
			m := prog.MethodValue(sel)
			if m == nil {
				return nil, notEval("method %s has no body", name)
			}
			return ev.callFunction(m, append([]any{ifc.V}, args...), 0)
		}
	}
	return nil, notEval("no method %s on %s", name, ifc.T)
}

// evalSorter sorts the locations of an evaluated slice: the values move, the locations stay (as in Go, where a
// sort swaps elements of the backing array).
type evalSorter struct {
	l    []*ELoc
	less func(i, j int) bool
}

func (s *evalSorter) Len() int           { return len(s.l) }
func (s *evalSorter) Less(i, j int) bool { return s.less(i, j) }
func (s *evalSorter) Swap(i, j int)      { s.l[i].V, s.l[j].V = s.l[j].V, s.l[i].V }

// readerMethod answers the io.Reader / io.Seeker / io.ByteReader / io.ReaderAt methods of a reader over known bytes.
func readerMethod(r *EBytesReader, method string, args []any) (any, *EvalError, bool) {
	switch method {
	case "Read":
		buf, ok := args[0].(*ESlice)
		if !ok {
			return nil, nil, false
		}
		if r.Pos >= len(r.Data) {
			if len(buf.L) == 0 {
				return ETuple{int64(0), nil}, nil, true
			}
			return ETuple{int64(0), r.endErr()}, nil, true
		}
		n := 0
		for n < len(buf.L) && r.Pos < len(r.Data) {
			buf.L[n].V = int64(r.Data[r.Pos])
			n++
			r.Pos++
		}
		return ETuple{int64(n), nil}, nil, true
	case "Close":
		return nil, nil, true
	case "ReadByte":
		if r.Pos >= len(r.Data) {
			return ETuple{int64(0), ErrEOF}, nil, true
		}
		r.Pos++
		return ETuple{int64(r.Data[r.Pos-1]), nil}, nil, true
	case "Seek":
		off, ok1 := args[0].(int64)
		whence, ok2 := args[1].(int64)
		if !ok1 || !ok2 {
			return nil, nil, false
		}
		var abs int64
		switch whence {
		case 0:
			abs = off
		case 1:
			abs = int64(r.Pos) + off
		case 2:
			abs = int64(len(r.Data)) + off
		default:
			return ETuple{int64(0), &EErr{Msg: "invalid whence"}}, nil, true
		}
		if abs < 0 {
			return ETuple{int64(0), &EErr{Msg: "negative position"}}, nil, true
		}
		if abs > int64(len(r.Data)) {
			r.Pos = len(r.Data)
		} else {
			r.Pos = int(abs)
		}
		return ETuple{abs, nil}, nil, true
	case "ReadAt":
		buf, ok := args[0].(*ESlice)
		off, ok2 := args[1].(int64)
		if !ok || !ok2 || off < 0 {
			return nil, nil, false
		}
		n := 0
		for n < len(buf.L) && int(off)+n < len(r.Data) {
			buf.L[n].V = int64(r.Data[int(off)+n])
			n++
		}
		if n < len(buf.L) {
			return ETuple{int64(n), ErrEOF}, nil, true
		}
		return ETuple{int64(n), nil}, nil, true
	}
	return nil, nil, false
}

// EScanner stands for a *bufio.Scanner over a reader of known bytes. A split function of the module is called
// through the evaluator; without one the lines are split as bufio.ScanLines does.
type EScanner struct {
	R     *EBytesReader
	Split any // *EClosure, *ssa.Function or nil
	Tok   []byte
	Done  bool
}

func bytesOfVal(v any) ([]byte, bool) {
	sl, ok := v.(*ESlice)
	if !ok {
		return nil, v == nil
	}
	out := make([]byte, 0, len(sl.L))
	for _, l := range sl.L {
		b, ok := l.V.(int64)
		if !ok {
			return nil, false
		}
		out = append(out, byte(b))
	}
	return out, true
}

// ReaderMethod answers Read, Seek, ReadAt and ReadByte on a reader over known bytes (for hooks that stand a file in).
func ReaderMethod(r *EBytesReader, method string, args []any) (any, *EvalError, bool) {
	return readerMethod(r, method, args)
}
