module verif/checker

go 1.23

require (
	golang.org/x/net v0.34.0
	golang.org/x/text v0.21.0
	golang.org/x/tools v0.29.0
)

require (
	golang.org/x/mod v0.22.0 // indirect
	golang.org/x/sync v0.10.0 // indirect
)

replace golang.org/x/text => golang.org/x/text v0.16.0
