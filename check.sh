#!/bin/sh
# usage: check.sh <property> <quick|thorough>
# Builds the checker from /verif/checker (cached by the go tool) and analyses
# /repo's current working tree. Nothing from the repository is executed.
set -u
HERE=$(cd "$(dirname "$0")" && pwd)
export GOFLAGS=-mod=mod GOPROXY=off GOSUMDB=off GOTOOLCHAIN=local
unset GOWORK
mkdir -p "$HERE/bin" "$HERE/evidence" "$HERE/reports"
( cd "$HERE/checker" && go build -o "$HERE/bin/vcheck" ./cmd/vcheck ) || { echo "UNDECIDED property=$1: checker build failed"; exit 2; }
VERIF_DIR="$HERE" exec "$HERE/bin/vcheck" -prop "$1" -tier "${2:-quick}"
