package demo

import (
	"strings"
	"testing"

	"github.com/tsawler/tabula/model"
	"github.com/tsawler/tabula/rag"
)

func TestSubsectionContentKept(t *testing.T) {
	doc := model.NewDocument()
	pg := model.NewPage(612, 792)
	pg.Layout = &model.PageLayout{
		Headings:   []model.HeadingInfo{{Level: 1, Text: "Chapter"}},
		Paragraphs: []model.ParagraphInfo{{Text: "Paragraph directly under the H1."}},
	}
	doc.AddPage(pg)
	pg2 := model.NewPage(612, 792)
	pg2.Layout = &model.PageLayout{
		Headings:   []model.HeadingInfo{{Level: 2, Text: "Detail"}},
		Paragraphs: []model.ParagraphInfo{{Text: "Paragraph under the H2 subsection."}},
	}
	doc.AddPage(pg2)
	cfg := rag.DefaultChunkerConfig()
	cfg.MinHeadingLevel = 2
	res, err := rag.NewChunkerWithConfig(cfg).Chunk(doc)
	if err != nil {
		t.Fatal(err)
	}
	var all []string
	for _, c := range res.Chunks {
		all = append(all, c.Text)
	}
	if !strings.Contains(strings.Join(all, "\n"), "Paragraph under the H2 subsection.") {
		t.Fatalf("paragraph under an H2 that follows an H1 is missing from the chunks: %q", all)
	}
}

func chunkTexts(t *testing.T, doc *model.Document, cfg rag.ChunkerConfig) string {
	res, err := rag.NewChunkerWithConfig(cfg).Chunk(doc)
	if err != nil {
		t.Fatal(err)
	}
	var all []string
	for _, c := range res.Chunks {
		all = append(all, c.Text)
	}
	return strings.Join(all, "\n§\n")
}

func TestContentOutsideMajorSectionsKept(t *testing.T) {
	doc := model.NewDocument()
	pg := model.NewPage(612, 792)
	pg.Layout = &model.PageLayout{Paragraphs: []model.ParagraphInfo{{Text: "Opening paragraph."}}}
	doc.AddPage(pg)
	pg2 := model.NewPage(612, 792)
	pg2.Layout = &model.PageLayout{
		Headings:   []model.HeadingInfo{{Level: 3, Text: "A minor heading"}},
		Paragraphs: []model.ParagraphInfo{{Text: "Paragraph after the minor heading."}},
	}
	doc.AddPage(pg2)
	cfg := rag.DefaultChunkerConfig()
	cfg.MinHeadingLevel = 2
	got := chunkTexts(t, doc, cfg)
	for _, want := range []string{"Opening paragraph.", "A minor heading", "Paragraph after the minor heading."} {
		if !strings.Contains(got, want) {
			t.Fatalf("%q is missing from the chunks: %q", want, got)
		}
	}
}

func TestIntroStaysBeforeOversizedList(t *testing.T) {
	var items []model.ListItem
	for i := 0; i < 60; i++ {
		items = append(items, model.ListItem{Text: "list entry number " + strings.Repeat("x", 40) + ".", Bullet: "-"})
	}
	doc := model.NewDocument()
	pg := model.NewPage(612, 792)
	pg.Layout = &model.PageLayout{
		Headings:   []model.HeadingInfo{{Level: 1, Text: "Chapter"}},
		Paragraphs: []model.ParagraphInfo{{Text: strings.Repeat("Filler sentence to make the section large. ", 20)}, {Text: "The following items apply:"}},
		Lists:      []model.ListInfo{{Items: items}},
	}
	doc.AddPage(pg)
	cfg := rag.DefaultChunkerConfig()
	got := chunkTexts(t, doc, cfg)
	i, j := strings.Index(got, "The following items apply:"), strings.Index(got, "list entry number")
	if i < 0 || j < 0 || i > j {
		t.Fatalf("intro paragraph (at %d) does not precede its list (at %d)", i, j)
	}
}

// the section path of a heading chunk must stay the chain of headings enclosing it
func TestSectionPathNotOverwrittenBySibling(t *testing.T) {
	doc := model.NewDocument()
	pg := model.NewPage(612, 792)
	for _, h := range []struct {
		lvl  int
		text string
	}{{1, "A"}, {2, "B"}, {2, "C"}, {2, "D"}} {
		pg.AddElement(&model.Heading{Text: h.text, Level: h.lvl})
		pg.AddElement(&model.Paragraph{Text: "body of " + h.text})
	}
	doc.AddPage(pg)
	coll := rag.ChunkDocument(doc)
	for _, c := range coll.Chunks {
		if c.Text == "B" {
			if got := strings.Join(c.Metadata.SectionPath, "/"); got != "A/B" {
				t.Fatalf("heading chunk B has section path %q, want A/B", got)
			}
			return
		}
	}
	t.Fatal("heading chunk B not found")
}

// skipped heading levels: the second H3 replaces the first, it does not nest under it
func TestSectionPathSkippedLevels(t *testing.T) {
	doc := model.NewDocument()
	pg := model.NewPage(612, 792)
	for _, h := range []struct {
		lvl  int
		text string
	}{{1, "A"}, {3, "X"}, {4, "Z"}, {3, "Y"}} {
		pg.AddElement(&model.Heading{Text: h.text, Level: h.lvl})
		pg.AddElement(&model.Paragraph{Text: "body of " + h.text})
	}
	doc.AddPage(pg)
	for _, c := range rag.ChunkDocument(doc).Chunks {
		if c.Text == "body of Y" {
			if got := strings.Join(c.Metadata.SectionPath, "/"); got != "A/Y" {
				t.Fatalf("paragraph under the second H3 has section path %q, want A/Y", got)
			}
			return
		}
	}
	t.Fatal("paragraph chunk not found")
}
