package demo

import (
	"strings"
	"testing"
	"time"

	"github.com/tsawler/tabula/core"
)

func TestStrayGreaterThanTerminates(t *testing.T) {
	done := make(chan error, 1)
	go func() {
		_, err := core.NewParser(strings.NewReader("<< /A > >>")).ParseObject()
		done <- err
	}()
	select {
	case err := <-done:
		if err == nil {
			t.Fatal("expected an error")
		}
	case <-time.After(2 * time.Second):
		t.Fatal("ParseObject did not return within 2s on \"<< /A > >>\"")
	}
}
