package demo

import (
	"fmt"
	"strings"
	"testing"

	"github.com/tsawler/tabula/layout"
	"github.com/tsawler/tabula/text"
)

func frg(s string, x, y, w float64) text.TextFragment {
	return text.TextFragment{Text: s, X: x, Y: y, Width: w, Height: 10, FontSize: 10}
}

// 30 body lines in two columns plus one short word that sticks out to the right of everything.
func TestNarrowColumnTextKept(t *testing.T) {
	var fr []text.TextFragment
	for i := 0; i < 30; i++ {
		y := 750 - float64(i)*14
		fr = append(fr, frg(fmt.Sprintf("left%02d words here", i), 50, y, 200))
		fr = append(fr, frg(fmt.Sprintf("right%02d words here", i), 300, y, 200))
	}
	fr = append(fr, frg("STRAY", 560, 400, 30))
	cl := layout.NewColumnDetector().Detect(fr, 612, 792)
	var got []string
	for _, c := range cl.Columns {
		for _, f := range c.Fragments {
			got = append(got, f.Text)
		}
	}
	for _, f := range cl.SpanningFragments {
		got = append(got, f.Text)
	}
	if !strings.Contains(strings.Join(got, " "), "STRAY") {
		t.Fatalf("the word in the narrow third 'column' is in no column and no spanning group (%d of %d fragments kept)", len(got), len(fr))
	}
}

// A single glyph narrower than MinLineWidth on a line of its own.
func TestNarrowLineKept(t *testing.T) {
	fr := []text.TextFragment{frg("Heading text", 50, 700, 100), frg("I", 50, 680, 3), frg("Body text follows", 50, 660, 150)}
	ll := layout.NewLineDetector().Detect(fr, 612, 792)
	if !strings.Contains(ll.GetText(), "I\n") && !strings.HasSuffix(ll.GetText(), "I") {
		t.Fatalf("the 3pt-wide line 'I' is missing from the detected lines: %q", ll.GetText())
	}
}

// A small isolated glyph forms a block narrower than MinBlockWidth.
func TestSmallBlockKept(t *testing.T) {
	fr := []text.TextFragment{frg("A long first block of text", 50, 700, 200), frg("7", 500, 300, 4)}
	bl := layout.NewBlockDetector().Detect(fr, 612, 792)
	if !strings.Contains(bl.GetText(), "7") {
		t.Fatalf("the 4pt-wide block '7' is missing from the detected blocks: %q", bl.GetText())
	}
}

// C09 / R9.7: paragraphs taken from the reading order carried column-relative X coordinates while headings and lists
// were detected with page coordinates; buildElementTree matches them by bounding-box overlap, so a heading that starts
// at the column edge and is narrower than that edge's distance from x=0 (any heading under 2in wide at a 1in margin)
// was not recognised as the same text and came out twice: as a heading element and as a paragraph element.
func TestInColumnHeadingEmittedOnce(t *testing.T) {
	mk := func(s string, x, y, size float64) text.TextFragment {
		return text.TextFragment{Text: s, X: x, Y: y, Width: float64(len(s)) * size * 0.5, Height: size, FontSize: size, FontName: "F1"}
	}
	frags := []text.TextFragment{
		mk("Introduction", 72, 730, 16),
		mk("Lorem ipsum dolor sit amet consectetur adipiscing elit sed do", 72, 700, 10),
		mk("eiusmod tempor incididunt ut labore et dolore magna aliqua ut", 72, 686, 10),
	}
	res := layout.NewAnalyzer().Analyze(frags, 612, 792)
	seen := map[string]int{}
	for _, e := range res.Elements {
		seen[strings.TrimSpace(e.Text)]++
	}
	for txt, n := range seen {
		if n != 1 {
			t.Errorf("%q appears %d times in the analysis elements, want once", txt, n)
		}
	}
	if seen["Introduction"] == 0 {
		t.Errorf("the heading is missing from the elements: %v", seen)
	}
}
