package demo

import (
	"bytes"
	"compress/zlib"
	"fmt"
	"strings"
	"testing"
	"time"

	"github.com/tsawler/tabula"
	"github.com/tsawler/tabula/core"
	"github.com/tsawler/tabula/reader"
)

// within runs f and fails the test if it panics or does not return in time.
func within(t *testing.T, d time.Duration, what string, f func()) {
	t.Helper()
	done := make(chan any, 1)
	go func() {
		defer func() { done <- recover() }()
		f()
	}()
	select {
	case r := <-done:
		if r != nil {
			t.Fatalf("%s panicked: %v", what, r)
		}
	case <-time.After(d):
		t.Fatalf("%s did not return within %v", what, d)
	}
}

func TestHugeStreamLength(t *testing.T) {
	within(t, 2*time.Second, "ParseIndirectObject with /Length 2^62", func() {
		core.NewParser(strings.NewReader("1 0 obj << /Length 4611686018427387904 >> stream\nabc\nendstream endobj")).ParseIndirectObject()
	})
}

func TestObjectStreamHeader(t *testing.T) {
	within(t, 2*time.Second, "object stream with /N 2^40", func() {
		os, err := core.NewObjectStream(&core.Stream{Dict: core.Dict{"Type": core.Name("ObjStm"), "N": core.Int(1 << 40), "First": core.Int(4)}, Data: []byte("1 0 5")})
		if err == nil {
			os.GetObjectByIndex(0)
		}
	})
	within(t, 2*time.Second, "object stream with a negative offset", func() {
		os, err := core.NewObjectStream(&core.Stream{Dict: core.Dict{"Type": core.Name("ObjStm"), "N": core.Int(1), "First": core.Int(6)}, Data: []byte("1 -9  42")})
		if err == nil {
			os.GetObjectByIndex(0)
		}
	})
}

func TestXRefStreamArrays(t *testing.T) {
	for _, d := range []string{"/W [1 1 1] /Index [0]", "/W [1 -1 1] /Index [0 1]", "/W [0 0 0] /Index [0 9223372036854775807]"} {
		src := "1 0 obj << /Type /XRef /Size 1 " + d + " /Length 3 >> stream\n\x01\x00\x00\nendstream endobj\n"
		within(t, 2*time.Second, "xref stream with "+d, func() {
			core.NewXRefParser(bytes.NewReader([]byte(src))).ParseXRef(0)
		})
	}
}

func TestPredictorGeometry(t *testing.T) {
	var z bytes.Buffer
	w := zlib.NewWriter(&z)
	w.Write([]byte{1, 2, 3, 4})
	w.Close()
	for _, parms := range []core.Dict{
		{"Predictor": core.Int(2), "Columns": core.Int(0)},
		{"Predictor": core.Int(12), "Columns": core.Int(-1)},
	} {
		within(t, 2*time.Second, fmt.Sprintf("Flate predictor %v", parms), func() {
			(&core.Stream{Dict: core.Dict{"Filter": core.Name("FlateDecode"), "DecodeParms": parms}, Data: z.Bytes()}).Decode()
		})
	}
}

func pdfWith(objs map[int]string, trailerExtra string, selfPrev bool) []byte {
	w := newPDF()
	for n, b := range objs {
		w.set(n, b)
	}
	b := w.bytes(1)
	if selfPrev {
		// point /Prev at this file's own xref section
		s := string(b)
		i := strings.LastIndex(s, "startxref\n")
		var off int
		fmt.Sscanf(s[i+len("startxref\n"):], "%d", &off)
		s = strings.Replace(s, "/Root 1 0 R >>", fmt.Sprintf("/Root 1 0 R /Prev %d >>", off), 1)
		return []byte(s)
	}
	return b
}

func TestPrevCycle(t *testing.T) {
	p := writeTemp(t, "prev.pdf", pdfWith(map[int]string{1: "<< /Type /Catalog /Pages 2 0 R >>", 2: "<< /Type /Pages /Kids [] /Count 0 >>"}, "", true))
	within(t, 3*time.Second, "opening a PDF whose /Prev points at its own xref", func() {
		if r, err := reader.Open(p); err == nil {
			r.Close()
		}
	})
}

func TestKidsCycle(t *testing.T) {
	p := writeTemp(t, "kids.pdf", pdfWith(map[int]string{1: "<< /Type /Catalog /Pages 2 0 R >>", 2: "<< /Type /Pages /Kids [2 0 R] /Count 1 >>"}, "", false))
	within(t, 3*time.Second, "Text() on a page tree that lists itself in /Kids", func() {
		tabula.Open(p).Text()
	})
}

func TestResolveDeepCycle(t *testing.T) {
	p := writeTemp(t, "deep.pdf", pdfWith(map[int]string{1: "<< /Type /Catalog /Pages 2 0 R /Self 1 0 R >>", 2: "<< /Type /Pages /Kids [] /Count 0 >>"}, "", false))
	within(t, 3*time.Second, "ResolveDeep on a self-referencing dictionary", func() {
		r, err := reader.Open(p)
		if err != nil {
			return
		}
		defer r.Close()
		r.ResolveDeep(core.IndirectRef{Number: 1})
	})
}

func TestHugeCount(t *testing.T) {
	p := writeTemp(t, "count.pdf", pdfWith(map[int]string{1: "<< /Type /Catalog /Pages 2 0 R >>", 2: "<< /Type /Pages /Kids [] /Count 1099511627776 >>"}, "", false))
	within(t, 3*time.Second, "Text() with /Count 2^40", func() {
		tabula.Open(p).Text()
	})
}

func TestDeepNesting(t *testing.T) {
	deep := strings.Repeat("[", 3000000)
	within(t, 20*time.Second, "document parser on 3M nested arrays", func() {
		core.NewParser(strings.NewReader(deep)).ParseObject()
	})
}

func TestSelfLength(t *testing.T) {
	w := newPDF()
	w.set(1, "<< /Type /Catalog /Pages 2 0 R >>")
	w.set(2, "<< /Type /Pages /Kids [] /Count 0 >>")
	w.set(3, "<< /Length 3 0 R >>\nstream\nabc\nendstream")
	p := writeTemp(t, "selflen.pdf", w.bytes(1))
	within(t, 5*time.Second, "GetObject on a stream whose /Length is itself", func() {
		r, err := reader.Open(p)
		if err != nil {
			return
		}
		defer r.Close()
		r.GetObject(3)
	})
}

// C02 / R2.12: the dimensions of an image XObject come from the file; ToPNG allocated the pixel buffer for them
// (image.NewGray panics on huge or overflowing dimensions, and a merely large pair asks for gigabytes) before it
// compared them with the data that is there.
func TestImageDimensionsAreCheckedBeforeAllocation(t *testing.T) {
	for _, dims := range [][2]int{{1 << 31, 1 << 31}, {1 << 20, 1 << 20}, {0, 7}, {-3, 5}} {
		for _, cs := range []string{"DeviceGray", "DeviceRGB", "DeviceCMYK"} {
			for _, bpc := range []int{1, 4, 8} {
				img := &reader.PageImage{Width: dims[0], Height: dims[1], BitsPerComponent: bpc, ColorSpace: cs, Data: []byte{1, 2, 3, 4}}
				func() {
					defer func() {
						if r := recover(); r != nil {
							t.Errorf("%dx%d %s/%d: ToPNG panicked: %v", dims[0], dims[1], cs, bpc, r)
						}
					}()
					if _, err := img.ToPNG(); err == nil {
						t.Errorf("%dx%d %s/%d: no error for 4 bytes of data", dims[0], dims[1], cs, bpc)
					}
				}()
			}
		}
	}
}

// C02 / R2.15: the span and repeat counts of table cells are numbers written in the file. The DOCX and ODT table
// parsers summed them into a column count and sized slices and loops from it: w:gridSpan or
// table:number-columns-spanned set to 2^63-1 panicked with "makeslice: len out of range", 2^31 asked for gigabytes.
func TestTableSpansFromTheFileAreBounded(t *testing.T) {
	for _, n := range []string{"9223372036854775807", "2147483648", "1000000000"} {
		docx := docxOf(t, `<w:tbl><w:tr><w:tc><w:tcPr><w:gridSpan w:val="`+n+`"/></w:tcPr><w:p><w:r><w:t>a</w:t></w:r></w:p></w:tc><w:tc><w:p><w:r><w:t>b</w:t></w:r></w:p></w:tc></w:tr></w:tbl>`)
		odt := odtOf(t, `<table:table><table:table-column table:number-columns-repeated="`+n+`"/><table:table-row><table:table-cell table:number-columns-spanned="`+n+`" table:number-rows-spanned="`+n+`"><text:p>a</text:p></table:table-cell><table:table-cell><text:p>b</text:p></table:table-cell></table:table-row></table:table>`)
		for name, p := range map[string]string{"docx": docx, "odt": odt} {
			done := make(chan string, 1)
			go func() {
				defer func() {
					if r := recover(); r != nil {
						done <- fmt.Sprint("panic: ", r)
					}
				}()
				txt, _, err := tabula.Open(p).Text()
				if err == nil && !strings.Contains(txt, "a") {
					done <- "text lost: " + txt
					return
				}
				if _, _, err := tabula.Open(p).ToMarkdown(); err != nil {
					done <- "markdown: " + err.Error()
					return
				}
				if _, _, err := tabula.Open(p).Document(); err != nil {
					done <- "document: " + err.Error()
					return
				}
				done <- ""
			}()
			select {
			case msg := <-done:
				if msg != "" {
					t.Errorf("%s span %s: %s", name, n, msg)
				}
			case <-time.After(20 * time.Second):
				t.Fatalf("%s span %s: no answer within 20s", name, n)
			}
		}
	}
}
