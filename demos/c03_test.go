package demo

import (
	"testing"

	"github.com/tsawler/tabula/contentstream"
	"github.com/tsawler/tabula/core"
	"github.com/tsawler/tabula/layout"
	"github.com/tsawler/tabula/model"
	"github.com/tsawler/tabula/pages"
	"github.com/tsawler/tabula/text"
)

func TestOperandLeak(t *testing.T) {
	contentstream.NewParser([]byte("1 2 3")).Parse()
	ops, err := contentstream.NewParser([]byte("BT")).Parse()
	if err != nil {
		t.Fatal(err)
	}
	if len(ops) != 1 || len(ops[0].Operands) != 0 {
		t.Fatalf("BT carries %d operands left over from an earlier parse", len(ops[0].Operands))
	}
}

func TestDictStringDeterministic(t *testing.T) {
	d := core.Dict{"A": core.Int(1), "B": core.Int(2), "C": core.Int(3), "D": core.Int(4)}
	first := d.String()
	for i := 0; i < 200; i++ {
		if s := d.String(); s != first {
			t.Fatalf("Dict.String differs between calls: %q vs %q", first, s)
		}
	}
}

func frag(s string, x, y float64) text.TextFragment {
	return text.TextFragment{Text: s, X: x, Y: y, Width: float64(len(s)) * 5, Height: 10, FontSize: 10}
}

func TestLeftMarginTie(t *testing.T) {
	// two left margins used by the same number of lines: the "most common" one is a tie
	var lines []layout.Line
	for i := 0; i < 4; i++ {
		x := 50.0
		if i%2 == 1 {
			x = 100.0
		}
		f := frag("some words here", x, 700-float64(i)*14)
		lines = append(lines, layout.Line{Fragments: []text.TextFragment{f}, Text: f.Text,
			BBox: model.BBox{X: x, Y: f.Y, Width: 300, Height: 10}, Baseline: f.Y, Height: 10, AverageFontSize: 10, SpacingBefore: 4, Index: i})
	}
	d := layout.NewParagraphDetector()
	first := d.Detect(lines, 600, 800)
	sig := func(l *layout.ParagraphLayout) string {
		s := ""
		for _, p := range l.Paragraphs {
			s += string(rune('0'+len(p.Lines))) + "/" + p.Style.String() + "/" + p.Alignment.String() + ";"
		}
		return s
	}
	for i := 0; i < 300; i++ {
		if got := d.Detect(lines, 600, 800); sig(got) != sig(first) {
			t.Fatalf("paragraph detection differs between runs on the same input: %s vs %s", sig(first), sig(got))
		}
	}
}

type mapResolver map[int]core.Object

func (m mapResolver) Resolve(o core.Object) (core.Object, error) {
	if r, ok := o.(core.IndirectRef); ok {
		return m[r.Number], nil
	}
	return o, nil
}
func (m mapResolver) ResolveDeep(o core.Object) (core.Object, error) { return m.Resolve(o) }
func (m mapResolver) ResolveReference(r core.IndirectRef) (core.Object, error) {
	return m[r.Number], nil
}

// C03 / R3.5: a failed page-tree load left the partially filled page list behind as if it were complete: the same
// call repeated returned a truncated document without an error.
func TestPageTreeFailedLoadIsNotCached(t *testing.T) {
	res := mapResolver{
		2: core.Dict{"Type": core.Name("Page")},
		3: core.Dict{"Type": core.Name("Bogus")},
	}
	root := core.Dict{"Type": core.Name("Pages"), "Count": core.Int(2),
		"Kids": core.Array{core.IndirectRef{Number: 2}, core.IndirectRef{Number: 3}}}
	tree := pages.NewPageTree(root, res)
	_, err1 := tree.Pages()
	ps, err2 := tree.Pages()
	if err1 == nil {
		t.Fatal("expected the malformed tree to be rejected")
	}
	if err2 == nil {
		t.Fatalf("the repeated call returned %d page(s) and no error after the first call failed with %q", len(ps), err1)
	}
}

// C03 / R3.5: an object stream whose header fails to parse kept its "decoded" mark: the repeated lookup went on with
// the offsets read so far instead of failing again.
func TestObjectStreamFailedDecodeIsNotCached(t *testing.T) {
	data := []byte("10 0 xx 5 (a) (b)")
	st := &core.Stream{Dict: core.Dict{"Type": core.Name("ObjStm"), "N": core.Int(2), "First": core.Int(10), "Length": core.Int(len(data))}, Data: data}
	os, err := core.NewObjectStream(st)
	if err != nil {
		t.Fatal(err)
	}
	_, _, err1 := os.GetObjectByIndex(0)
	obj, _, err2 := os.GetObjectByIndex(0)
	if err1 == nil {
		t.Fatal("expected the malformed header to be rejected")
	}
	if err2 == nil {
		t.Fatalf("the repeated lookup returned %v and no error after the first failed with %q", obj, err1)
	}
}
