package demo

import (
	"testing"

	"github.com/tsawler/tabula/layout"
	"github.com/tsawler/tabula/text"
)

// C11: "A line repeated at the same marginal position on every page ... [is] removed from every page."
// A running header of one or two bytes ("A1", the section sign of a legal text) used to be skipped by the detector
// before its occurrences were counted (findRepeatingPatterns: len(normalizedText) <= 2); fixed in 0c06cb0.
func TestShortRunningHeaderIsRemoved(t *testing.T) {
	for _, header := range []string{"AB", "Q", "Introduction"} {
		var pages []layout.PageFragments
		for p := 0; p < 4; p++ {
			frs := []text.TextFragment{{Text: header, X: 72, Y: 760, Width: 30, Height: 10, FontSize: 10}}
			for l := 0; l < 20; l++ {
				frs = append(frs, text.TextFragment{Text: "body line of the page with different words " + string(rune('a'+p)) + string(rune('a'+l)), X: 72, Y: 650 - float64(l)*25, Width: 300, Height: 10, FontSize: 10})
			}
			pages = append(pages, layout.PageFragments{PageIndex: p, PageHeight: 792, PageWidth: 612, Fragments: frs})
		}
		res := layout.NewHeaderFooterDetector().Detect(pages)
		kept := 0
		for _, pg := range pages {
			for _, f := range res.FilterFragments(pg.PageIndex, pg.Fragments, pg.PageHeight) {
				if f.Text == header {
					kept++
				}
			}
		}
		t.Logf("header %q: kept on %d of 4 pages", header, kept)
		if kept != 0 {
			t.Errorf("the running header %q stays on %d of 4 pages", header, kept)
		}
	}
}
