package demo

import (
	"strings"
	"testing"

	"github.com/tsawler/tabula/contentstream"
	"github.com/tsawler/tabula/core"
)

func TestQuoteOperators(t *testing.T) {
	ops, err := contentstream.NewParser([]byte("BT (x) ' 1 2 (y) \" ET")).Parse()
	if err != nil {
		t.Fatalf("' and \" operators: %v", err)
	}
	if len(ops) != 4 || ops[1].Operator != "'" || len(ops[1].Operands) != 1 || ops[2].Operator != "\"" || len(ops[2].Operands) != 3 {
		t.Fatalf("wrong grouping: %+v", ops)
	}
}

func TestBooleanOperands(t *testing.T) {
	ops, err := contentstream.NewParser([]byte("[true false null] true /P <</MCID 0 /X true>> BDC")).Parse()
	if err != nil {
		t.Fatalf("booleans: %v", err)
	}
	if len(ops) != 1 || ops[0].Operator != "BDC" || len(ops[0].Operands) != 4 {
		t.Fatalf("wrong grouping: %+v", ops)
	}
	arr := ops[0].Operands[0].(core.Array)
	if len(arr) != 3 || arr[0] != core.Bool(true) {
		t.Fatalf("array: %v", arr)
	}
}

func TestComments(t *testing.T) {
	ops, err := contentstream.NewParser([]byte("q % save\n1 0 0 1 5 5 cm % move\nQ")).Parse()
	if err != nil {
		t.Fatalf("comments: %v", err)
	}
	if len(ops) != 3 || len(ops[1].Operands) != 6 {
		t.Fatalf("wrong grouping: %+v", ops)
	}
}

// C06: a hex string with an odd number of digits (the last digit is taken as followed by 0, ISO 32000-1 7.3.4.3) was
// read by the content stream parser without consuming the closing '>', which was then met as a stray delimiter.
func TestContentStreamOddHexString(t *testing.T) {
	for _, src := range []string{"<414> Tj", "<41 4> Tj", "<4>Tj", "[<414> 10 <42>] TJ"} {
		ops, err := contentstream.NewParser([]byte(src)).Parse()
		if err != nil {
			t.Errorf("%q: %v", src, err)
			continue
		}
		if len(ops) != 1 || (ops[0].Operator != "Tj" && ops[0].Operator != "TJ") {
			t.Errorf("%q: operations %+v", src, ops)
			continue
		}
		var first core.Object = ops[0].Operands[0]
		if arr, ok := first.(core.Array); ok {
			first = arr[0]
		}
		want := "A@"
		if src == "<4>Tj" {
			want = "@"
		}
		if s, ok := first.(core.String); !ok || string(s) != want {
			t.Errorf("%q: first string %q, want %q (as the object parser reads it)", src, first, want)
		}
	}
}

// A comment may stand between any two tokens, also between the numbers of an indirect reference.
func TestCommentInsideReference(t *testing.T) {
	for _, src := range []string{"[1 %c\n 0 %c\n R]", "<</K 1 %c\n 0 R>>", "7 % gen follows\r\n 2 R"} {
		obj, err := core.NewParser(strings.NewReader(src)).ParseObject()
		if err != nil {
			t.Errorf("%q: %v", src, err)
			continue
		}
		switch v := obj.(type) {
		case core.Array:
			if len(v) != 1 || v[0] != (core.IndirectRef{Number: 1, Generation: 0}) {
				t.Errorf("%q parses to %v", src, v)
			}
		case core.Dict:
			if v.Get("K") != (core.IndirectRef{Number: 1, Generation: 0}) {
				t.Errorf("%q parses to %v", src, v)
			}
		case core.IndirectRef:
			if v != (core.IndirectRef{Number: 7, Generation: 2}) {
				t.Errorf("%q parses to %v", src, v)
			}
		default:
			t.Errorf("%q parses to %T", src, obj)
		}
	}
}
