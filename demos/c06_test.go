package demo

import (
	"testing"

	"github.com/tsawler/tabula/contentstream"
	"github.com/tsawler/tabula/core"
)

func TestQuoteOperators(t *testing.T) {
	ops, err := contentstream.NewParser([]byte("BT (x) ' 1 2 (y) \" ET")).Parse()
	if err != nil {
		t.Fatalf("' and \" operators: %v", err)
	}
	if len(ops) != 4 || ops[1].Operator != "'" || len(ops[1].Operands) != 1 || ops[2].Operator != "\"" || len(ops[2].Operands) != 3 {
		t.Fatalf("wrong grouping: %+v", ops)
	}
}

func TestBooleanOperands(t *testing.T) {
	ops, err := contentstream.NewParser([]byte("[true false null] true /P <</MCID 0 /X true>> BDC")).Parse()
	if err != nil {
		t.Fatalf("booleans: %v", err)
	}
	if len(ops) != 1 || ops[0].Operator != "BDC" || len(ops[0].Operands) != 4 {
		t.Fatalf("wrong grouping: %+v", ops)
	}
	arr := ops[0].Operands[0].(core.Array)
	if len(arr) != 3 || arr[0] != core.Bool(true) {
		t.Fatalf("array: %v", arr)
	}
}

func TestComments(t *testing.T) {
	ops, err := contentstream.NewParser([]byte("q % save\n1 0 0 1 5 5 cm % move\nQ")).Parse()
	if err != nil {
		t.Fatalf("comments: %v", err)
	}
	if len(ops) != 3 || len(ops[1].Operands) != 6 {
		t.Fatalf("wrong grouping: %+v", ops)
	}
}
