package demo

import (
	"testing"
	"unicode/utf8"

	"github.com/tsawler/tabula"
	"github.com/tsawler/tabula/core"
	"github.com/tsawler/tabula/font"
)

func cmapOf(t *testing.T, body string) *font.CMap {
	src := "/CIDInit /ProcSet findresource begin\n12 dict begin\nbegincmap\n1 begincodespacerange\n<0000> <FFFF>\nendcodespacerange\n" + body + "\nendcmap\n"
	cm, err := font.ParseToUnicodeCMap(&core.Stream{Dict: core.Dict{}, Data: []byte(src)})
	if err != nil {
		t.Fatal(err)
	}
	return cm
}

func TestBfRangeSurrogateTarget(t *testing.T) {
	cm := cmapOf(t, "1 beginbfrange\n<0001> <0002> <D83DDE00>\nendbfrange")
	if got := cm.LookupString([]byte{0, 1}); got != "\U0001F600" {
		t.Fatalf("bfrange with a surrogate-pair target decodes to %q, want U+1F600", got)
	}
}

func TestPDFDocAccents(t *testing.T) {
	if got := font.GetEncoding("PDFDocEncoding").DecodeString([]byte{0x18}); got != "˘" {
		t.Fatalf("PDFDocEncoding 0x18 decodes to %q, ISO 32000 D.3 says breve U+02D8", got)
	}
}

func TestRawFallbackUTF8(t *testing.T) {
	f := font.NewFont("F1", "Helvetica", "Type1")
	f.Encoding = ""
	if got := f.DecodeString([]byte{0xE9, 0x41}); !utf8.ValidString(got) {
		t.Fatalf("text returned by the library is not valid UTF-8: %q", got)
	}
}

// C07 / R7.11: the bfrange section with array targets was cut into lines at "\n" and each line read on its own, so
// the meaning of a CMap program depended on its formatting: without line breaks, with CR line breaks, with a triple
// after an array on the same line, or with the array starting on a later line than its codes, mappings were lost.
func TestBfRangeArraysUnderEveryFormatting(t *testing.T) {
	for _, body := range []string{
		"2 beginbfrange <0001> <0002> [<0041> <0042>] <0003> <0004> <0050> endbfrange",
		"2 beginbfrange\n<0001> <0002> [<0041> <0042>]\n<0003> <0004> <0050>\nendbfrange",
		"2 beginbfrange\r<0001> <0002> [<0041> <0042>]\r<0003> <0004> <0050>\rendbfrange",
		"2 beginbfrange\r\n<0001> <0002> [<0041> <0042>]\r\n<0003> <0004> <0050>\r\nendbfrange",
		"2 beginbfrange\n<0001> <0002> [<0041> <0042>] <0003> <0004> <0050>\nendbfrange",
		"2 beginbfrange\n<0001> <0002>\n[<0041>\n<0042>]\n<0003> <0004> <0050>\nendbfrange",
		"2 beginbfrange\n<0003> <0004> <0050> <0001> <0002> [<0041> <0042>]\nendbfrange",
		"2 beginbfrange<0001><0002>[<0041><0042>]<0003><0004><0050>endbfrange",
	} {
		cm := cmapOf(t, body)
		got := cm.LookupString([]byte{0, 1, 0, 2, 0, 3, 0, 4})
		if got != "ABPQ" {
			t.Errorf("%q decodes codes 1..4 to %q, want \"ABPQ\"", body, got)
		}
	}
}

// C07 / R7.11: the code space range was looked for line by line too (two hex strings on one line), so a range whose
// low and high bounds stand on different lines, or a CMap with CR line breaks, left the code width undetermined.
func TestCodeSpaceRangeUnderEveryFormatting(t *testing.T) {
	for _, csr := range []string{
		"1 begincodespacerange\n<0000> <FFFF>\nendcodespacerange",
		"1 begincodespacerange\n<0000>\n<FFFF>\nendcodespacerange",
		"1 begincodespacerange <0000> <FFFF> endcodespacerange",
		"1 begincodespacerange\r<0000> <FFFF>\rendcodespacerange",
	} {
		src := "/CIDInit /ProcSet findresource begin\n12 dict begin\nbegincmap\n" + csr + "\n2 beginbfchar\n<0041> <0078>\n<4100> <0079>\nendbfchar\nendcmap\n"
		cm, err := font.ParseToUnicodeCMap(&core.Stream{Dict: core.Dict{}, Data: []byte(src)})
		if err != nil {
			t.Fatal(err)
		}
		// 41 00 is ONE two-byte code (-> y); without the code space the decoder guesses and takes 41 alone (-> x)
		if got := cm.LookupString([]byte{0x41, 0x00, 0x00, 0x41}); got != "yx" {
			t.Errorf("%q: 4100 0041 decodes to %q, want \"yx\"", csr, got)
		}
	}
}

func fontDoc(fontDict string) []byte {
	w := newPDF()
	w.set(1, "<< /Type /Catalog /Pages 2 0 R >>")
	w.set(2, "<< /Type /Pages /Kids [3 0 R] /Count 1 >>")
	w.set(3, "<< /Type /Page /Parent 2 0 R /MediaBox [0 0 612 792] /Resources << /Font << /F1 5 0 R >> >> /Contents 4 0 R >>")
	body := "BT /F1 12 Tf 72 700 Td <010203> Tj ET"
	w.stream(4, "", body, 0)
	w.set(5, fontDict)
	cm := "/CIDInit /ProcSet findresource begin\n12 dict begin\nbegincmap\n1 begincodespacerange\n<00> <FF>\nendcodespacerange\n3 beginbfchar\n<01> <0048>\n<02> <0069>\n<03> <0021>\nendbfchar\nendcmap\n"
	w.stream(6, "", cm, 0)
	return w.bytes(1)
}


// C07 / R7.12: only Type1, TrueType and Type0 fonts were registered. A Multiple Master (MMType1) or Type3 font was
// never parsed, so its strings were decoded by the fallback font as raw codes although the font has a ToUnicode CMap.
func TestToUnicodeOfEverySimpleFontSubtype(t *testing.T) {
	for _, fd := range []string{
		"<< /Type /Font /Subtype /Type1 /BaseFont /Helvetica /ToUnicode 6 0 R >>",
		"<< /Type /Font /Subtype /MMType1 /BaseFont /MyriadMM /ToUnicode 6 0 R >>",
		"<< /Type /Font /Subtype /Type3 /FontBBox [0 0 10 10] /FontMatrix [0.1 0 0 0.1 0 0] /CharProcs << >> /Encoding << /Type /Encoding /Differences [1 /a /b /c] >> /FirstChar 1 /LastChar 3 /Widths [10 10 10] /ToUnicode 6 0 R >>",
	} {
		p := writeTemp(t, "f.pdf", fontDoc(fd))
		txt, _, err := tabula.Open(p).Text()
		if err != nil {
			t.Fatal(err)
		}
		if txt != "Hi!" {
			t.Errorf("%s...: text %q, want \"Hi!\" (the ToUnicode CMap maps 01 02 03 to it)", fd[:44], txt)
		}
	}
}

// a hex string may be wrapped over lines (ISO 32000-1 7.3.4.3: white space inside <...> is ignored)
func TestHexTokenWrappedOverLines(t *testing.T) {
	for _, sep := range []string{" ", "\n", "\r\n", "\t"} {
		cm := cmapOf(t, "3 beginbfrange\n<0010> <0010> [<D83D"+sep+"DC4B>]\n<0011> <0012> <D83D"+sep+"DE00>\n<0013> <0013> <00"+sep+"41>\nendbfrange\n1 beginbfchar\n<0014> <00"+sep+"42>\nendbfchar")
		for code, want := range map[byte]string{0x10: "\U0001F44B", 0x11: "\U0001F600", 0x12: "\U0001F601", 0x13: "A", 0x14: "B"} {
			if got := cm.LookupString([]byte{0, code}); got != want {
				t.Errorf("separator %q: code %02x decodes to %q, want %q", sep, code, got, want)
			}
		}
	}
}
