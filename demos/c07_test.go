package demo

import (
	"testing"
	"unicode/utf8"

	"github.com/tsawler/tabula/core"
	"github.com/tsawler/tabula/font"
)

func cmapOf(t *testing.T, body string) *font.CMap {
	src := "/CIDInit /ProcSet findresource begin\n12 dict begin\nbegincmap\n1 begincodespacerange\n<0000> <FFFF>\nendcodespacerange\n" + body + "\nendcmap\n"
	cm, err := font.ParseToUnicodeCMap(&core.Stream{Dict: core.Dict{}, Data: []byte(src)})
	if err != nil {
		t.Fatal(err)
	}
	return cm
}

func TestBfRangeSurrogateTarget(t *testing.T) {
	cm := cmapOf(t, "1 beginbfrange\n<0001> <0002> <D83DDE00>\nendbfrange")
	if got := cm.LookupString([]byte{0, 1}); got != "\U0001F600" {
		t.Fatalf("bfrange with a surrogate-pair target decodes to %q, want U+1F600", got)
	}
}

func TestPDFDocAccents(t *testing.T) {
	if got := font.GetEncoding("PDFDocEncoding").DecodeString([]byte{0x18}); got != "˘" {
		t.Fatalf("PDFDocEncoding 0x18 decodes to %q, ISO 32000 D.3 says breve U+02D8", got)
	}
}

func TestRawFallbackUTF8(t *testing.T) {
	f := font.NewFont("F1", "Helvetica", "Type1")
	f.Encoding = ""
	if got := f.DecodeString([]byte{0xE9, 0x41}); !utf8.ValidString(got) {
		t.Fatalf("text returned by the library is not valid UTF-8: %q", got)
	}
}
