package demo

import (
	"bytes"
	"fmt"
	"os"
	"path/filepath"
	"sort"
	"testing"
)

// pdfw is a tiny independent PDF writer for demonstrations.
type pdfw struct {
	objs map[int]string
}

func newPDF() *pdfw { return &pdfw{objs: map[int]string{}} }

func (w *pdfw) set(n int, body string) { w.objs[n] = body }

func (w *pdfw) stream(n int, dict string, data string, lengthRef int) {
	if lengthRef > 0 {
		w.objs[n] = fmt.Sprintf("<< %s /Length %d 0 R >>\nstream\n%s\nendstream", dict, lengthRef, data)
		w.objs[lengthRef] = fmt.Sprintf("%d", len(data))
	} else {
		w.objs[n] = fmt.Sprintf("<< %s /Length %d >>\nstream\n%s\nendstream", dict, len(data), data)
	}
}

func (w *pdfw) bytes(root int) []byte {
	var nums []int
	for n := range w.objs {
		nums = append(nums, n)
	}
	sort.Ints(nums)
	var b bytes.Buffer
	b.WriteString("%PDF-1.4\n")
	off := map[int]int{}
	for _, n := range nums {
		off[n] = b.Len()
		fmt.Fprintf(&b, "%d 0 obj\n%s\nendobj\n", n, w.objs[n])
	}
	max := nums[len(nums)-1]
	xref := b.Len()
	fmt.Fprintf(&b, "xref\n0 %d\n", max+1)
	b.WriteString("0000000000 65535 f \n")
	for i := 1; i <= max; i++ {
		if o, ok := off[i]; ok {
			fmt.Fprintf(&b, "%010d 00000 n \n", o)
		} else {
			b.WriteString("0000000000 65535 f \n")
		}
	}
	fmt.Fprintf(&b, "trailer\n<< /Size %d /Root %d 0 R >>\nstartxref\n%d\n%%%%EOF\n", max+1, root, xref)
	return b.Bytes()
}

func writeTemp(t *testing.T, name string, data []byte) string {
	t.Helper()
	p := filepath.Join(t.TempDir(), name)
	if err := os.WriteFile(p, data, 0o644); err != nil {
		t.Fatal(err)
	}
	return p
}

const fontObj = "<< /Type /Font /Subtype /Type1 /BaseFont /Helvetica /Encoding /WinAnsiEncoding >>"

// simpleDoc: n pages, flat tree, page i shows "Page<i>".
func simpleDoc(n int) []byte {
	w := newPDF()
	w.set(1, "<< /Type /Catalog /Pages 2 0 R >>")
	kids := ""
	for i := 0; i < n; i++ {
		pg := 10 + 2*i
		kids += fmt.Sprintf("%d 0 R ", pg)
		w.set(pg, fmt.Sprintf("<< /Type /Page /Parent 2 0 R /MediaBox [0 0 612 792] /Resources << /Font << /F1 3 0 R >> >> /Contents %d 0 R >>", pg+1))
		w.stream(pg+1, "", fmt.Sprintf("BT /F1 12 Tf 72 700 Td (Page%d body text) Tj ET", i+1), 0)
	}
	w.set(2, fmt.Sprintf("<< /Type /Pages /Kids [%s] /Count %d >>", kids, n))
	w.set(3, fontObj)
	return w.bytes(1)
}
