package demo

import (
	"fmt"
	"strings"
	"testing"
	"time"

	"github.com/tsawler/tabula"
	"github.com/tsawler/tabula/contentstream"
	"github.com/tsawler/tabula/core"
	"github.com/tsawler/tabula/font"
	"github.com/tsawler/tabula/text"
)

// TestListLevelFromTheFileIsBounded: w:ilvl is a number written in the file; the DOCX writers repeat the
// indentation that many times for every list item.
func TestListLevelFromTheFileIsBounded(t *testing.T) {
	for _, n := range []string{"9223372036854775807", "2147483648", "1000000000"} {
		for _, p := range []string{
			docxOf(t, `<w:p><w:pPr><w:numPr><w:ilvl w:val="`+n+`"/><w:numId w:val="1"/></w:numPr></w:pPr><w:r><w:t>item</w:t></w:r></w:p>`),
			pptxLevel(t, n),
		} {
			p := p
			done := make(chan string, 1)
			go func() {
				defer func() {
					if r := recover(); r != nil {
						done <- fmt.Sprint("panic: ", r)
					}
				}()
				txt, _, err := tabula.Open(p).Text()
				if err == nil && !strings.Contains(txt, "item") {
					done <- "text lost"
					return
				}
				if err == nil && len(txt) > 1<<20 {
					done <- fmt.Sprintf("text of %d bytes for a one-word list item", len(txt))
					return
				}
				if md, _, err := tabula.Open(p).ToMarkdown(); err == nil && len(md) > 1<<20 {
					done <- fmt.Sprintf("markdown of %d bytes for a one-word list item", len(md))
					return
				}
				done <- ""
			}()
			select {
			case msg := <-done:
				if msg != "" {
					t.Errorf("ilvl %s: %s", n, msg)
				}
			case <-time.After(20 * time.Second):
				t.Fatalf("ilvl %s: no answer within 20s", n)
			}
		}
	}
}

// pptxLevel: a one-slide deck whose only paragraph is a bullet at the given level.
func pptxLevel(t *testing.T, lvl string) string {
	slide := `<?xml version="1.0"?><p:sld xmlns:a="http://schemas.openxmlformats.org/drawingml/2006/main" xmlns:p="http://schemas.openxmlformats.org/presentationml/2006/main"><p:cSld><p:spTree><p:sp><p:nvSpPr><p:cNvPr id="2" name="T"/><p:cNvSpPr/><p:nvPr/></p:nvSpPr><p:txBody><a:bodyPr/><a:p><a:pPr lvl="` + lvl + `"><a:buChar char="-"/></a:pPr><a:r><a:t>item</a:t></a:r></a:p></p:txBody></p:sp></p:spTree></p:cSld></p:sld>`
	return zipOf(t, "deck.pptx", [][2]string{
		{"[Content_Types].xml", `<?xml version="1.0"?><Types xmlns="http://schemas.openxmlformats.org/package/2006/content-types"><Default Extension="xml" ContentType="application/xml"/></Types>`},
		{"ppt/presentation.xml", `<?xml version="1.0"?><p:presentation xmlns:p="http://schemas.openxmlformats.org/presentationml/2006/main" xmlns:r="http://schemas.openxmlformats.org/officeDocument/2006/relationships"><p:sldIdLst><p:sldId id="256" r:id="rId1"/></p:sldIdLst></p:presentation>`},
		{"ppt/_rels/presentation.xml.rels", `<?xml version="1.0"?><Relationships xmlns="http://schemas.openxmlformats.org/package/2006/relationships"><Relationship Id="rId1" Type="http://schemas.openxmlformats.org/officeDocument/2006/relationships/slide" Target="slides/slide1.xml"/></Relationships>`},
		{"ppt/slides/slide1.xml", slide},
	})
}

// TestUnterminatedContentStreamDict: a content stream cut off inside a dictionary, after white space.
func TestUnterminatedContentStreamDict(t *testing.T) {
	for _, src := range []string{"<< ", "<< /A 1 ", "/Span << /MCID 0 ", "BT /Span <<\n"} {
		func() {
			defer func() {
				if r := recover(); r != nil {
					t.Errorf("%q: panic: %v", src, r)
				}
			}()
			contentstream.NewParser([]byte(src)).Parse()
			text.NewExtractor().ExtractFromBytes([]byte(src))
		}()
	}
}

// onePagePDF: one page with the given MediaBox and content stream.
func onePagePDF(t *testing.T, mediaBox, content string) string {
	w := newPDF()
	w.set(1, "<< /Type /Catalog /Pages 2 0 R >>")
	w.set(10, "<< /Type /Page /Parent 2 0 R /MediaBox "+mediaBox+" /Resources << /Font << /F1 3 0 R >> >> /Contents 11 0 R >>")
	w.stream(11, "", content, 0)
	w.set(2, "<< /Type /Pages /Kids [10 0 R] /Count 1 >>")
	w.set(3, fontObj)
	return writeTemp(t, "m.pdf", w.bytes(1))
}

func answers(t *testing.T, what string, f func() string) {
	done := make(chan string, 1)
	go func() {
		defer func() {
			if r := recover(); r != nil {
				done <- fmt.Sprint("panic: ", r)
			}
		}()
		done <- f()
	}()
	select {
	case msg := <-done:
		if msg != "" {
			t.Errorf("%s: %s", what, msg)
		}
	case <-time.After(30 * time.Second):
		t.Fatalf("%s: no answer within 30s", what)
	}
}

// TestPageWidthFromTheFileIsBounded: the MediaBox is a number written in the file; column detection sizes a
// histogram by the page width.
func TestPageWidthFromTheFileIsBounded(t *testing.T) {
	cs := "BT /F1 12 Tf 72 700 Td (Left column text here) Tj 300 0 Td (Right column text) Tj 0 -14 Td (more right) Tj -300 0 Td (more left) Tj ET"
	for _, mb := range []string{"[0 0 -2147483648 792]", "[0 0 9223372036854775807 792]", "[0 0 2147483648 792]", "[0 0 612 9223372036854775807]", "[0 0 612 -2147483648]"} {
		p := onePagePDF(t, mb, cs)
		answers(t, "MediaBox "+mb, func() string {
			tabula.Open(p).ByColumn().Text()
			tabula.Open(p).Document()
			tabula.Open(p).ExcludeHeadersAndFooters().Text()
			tabula.Open(p).Chunks()
			tabula.Open(p).Analyze()
			return ""
		})
	}
}

// TestPreserveLayoutPositionsAreBounded: text positions are numbers written in the content stream; the layout
// writer turns horizontal distance into spaces and vertical distance into line breaks.
func TestPreserveLayoutPositionsAreBounded(t *testing.T) {
	for _, cs := range []string{
		"BT /F1 12 Tf 72 700 Td (A) Tj 2147483648 0 Td (B) Tj ET",
		"BT /F1 12 Tf 72 700 Td (A) Tj 0 -2147483648 Td (B) Tj ET",
		"BT /F1 12 Tf 72 700 Td (A) Tj 9223372036854775807 0 Td (B) Tj ET",
		"BT /F1 12 Tf 72 700 Td (A) Tj 0 -9223372036854775807 Td (B) Tj ET",
	} {
		p := onePagePDF(t, "[0 0 612 792]", cs)
		answers(t, cs, func() string {
			txt, _, err := tabula.Open(p).PreserveLayout().Text()
			if err == nil && len(txt) > 1<<20 {
				return fmt.Sprintf("%d bytes of text for two glyphs", len(txt))
			}
			if err == nil && (!strings.Contains(txt, "A") || !strings.Contains(txt, "B")) {
				return "text lost: " + txt
			}
			return ""
		})
	}
}

// TestSheetDimensionCheckDoesNotOverflow: the row number is written in the file; rows x columns is compared with
// the cell limit before the dense grid is allocated.
func TestSheetDimensionCheckDoesNotOverflow(t *testing.T) {
	for _, r := range []string{"9223372036854775807", "4611686018427387904", "2147483648"} {
		p := xlsxOf(t, `<row r="1"><c r="A1"><v>1</v></c></row><row r="`+r+`"><c r="B`+r+`"><v>2</v></c><c r="D`+r+`"><v>3</v></c></row>`)
		answers(t, "row "+r, func() string {
			tabula.Open(p).Text()
			tabula.Open(p).ToMarkdown()
			tabula.Open(p).Document()
			return ""
		})
	}
}

// TestBfRangeArrayWithStrayBracket: a ']' before the '[' of a bfrange array line.
func TestBfRangeArrayWithStrayBracket(t *testing.T) {
	defer func() {
		if r := recover(); r != nil {
			t.Fatalf("panic: %v", r)
		}
	}()
	font.ParseToUnicodeCMap(&core.Stream{Dict: core.Dict{}, Data: []byte("1 beginbfrange\n<00> <05> ] [<0041> <0042>]\nendbfrange\n")})
}
