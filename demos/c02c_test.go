package demo

import (
	"fmt"
	"strings"
	"testing"
	"time"

	"github.com/tsawler/tabula"
)

// TestListLevelFromTheFileIsBounded: w:ilvl is a number written in the file; the DOCX writers repeat the
// indentation that many times for every list item.
func TestListLevelFromTheFileIsBounded(t *testing.T) {
	for _, n := range []string{"9223372036854775807", "2147483648", "1000000000"} {
		for _, p := range []string{
			docxOf(t, `<w:p><w:pPr><w:numPr><w:ilvl w:val="`+n+`"/><w:numId w:val="1"/></w:numPr></w:pPr><w:r><w:t>item</w:t></w:r></w:p>`),
			pptxLevel(t, n),
		} {
			p := p
			done := make(chan string, 1)
			go func() {
				defer func() {
					if r := recover(); r != nil {
						done <- fmt.Sprint("panic: ", r)
					}
				}()
				txt, _, err := tabula.Open(p).Text()
				if err == nil && !strings.Contains(txt, "item") {
					done <- "text lost"
					return
				}
				if err == nil && len(txt) > 1<<20 {
					done <- fmt.Sprintf("text of %d bytes for a one-word list item", len(txt))
					return
				}
				if md, _, err := tabula.Open(p).ToMarkdown(); err == nil && len(md) > 1<<20 {
					done <- fmt.Sprintf("markdown of %d bytes for a one-word list item", len(md))
					return
				}
				done <- ""
			}()
			select {
			case msg := <-done:
				if msg != "" {
					t.Errorf("ilvl %s: %s", n, msg)
				}
			case <-time.After(20 * time.Second):
				t.Fatalf("ilvl %s: no answer within 20s", n)
			}
		}
	}
}

// pptxLevel: a one-slide deck whose only paragraph is a bullet at the given level.
func pptxLevel(t *testing.T, lvl string) string {
	slide := `<?xml version="1.0"?><p:sld xmlns:a="http://schemas.openxmlformats.org/drawingml/2006/main" xmlns:p="http://schemas.openxmlformats.org/presentationml/2006/main"><p:cSld><p:spTree><p:sp><p:nvSpPr><p:cNvPr id="2" name="T"/><p:cNvSpPr/><p:nvPr/></p:nvSpPr><p:txBody><a:bodyPr/><a:p><a:pPr lvl="` + lvl + `"><a:buChar char="-"/></a:pPr><a:r><a:t>item</a:t></a:r></a:p></p:txBody></p:sp></p:spTree></p:cSld></p:sld>`
	return zipOf(t, "deck.pptx", [][2]string{
		{"[Content_Types].xml", `<?xml version="1.0"?><Types xmlns="http://schemas.openxmlformats.org/package/2006/content-types"><Default Extension="xml" ContentType="application/xml"/></Types>`},
		{"ppt/presentation.xml", `<?xml version="1.0"?><p:presentation xmlns:p="http://schemas.openxmlformats.org/presentationml/2006/main" xmlns:r="http://schemas.openxmlformats.org/officeDocument/2006/relationships"><p:sldIdLst><p:sldId id="256" r:id="rId1"/></p:sldIdLst></p:presentation>`},
		{"ppt/_rels/presentation.xml.rels", `<?xml version="1.0"?><Relationships xmlns="http://schemas.openxmlformats.org/package/2006/relationships"><Relationship Id="rId1" Type="http://schemas.openxmlformats.org/officeDocument/2006/relationships/slide" Target="slides/slide1.xml"/></Relationships>`},
		{"ppt/slides/slide1.xml", slide},
	})
}
