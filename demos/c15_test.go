package demo

import (
	"strings"
	"testing"
	"unicode/utf8"

	"github.com/tsawler/tabula/model"
	"github.com/tsawler/tabula/pptx"
	"github.com/tsawler/tabula/rag"
)

func TestTablePipeEscaped(t *testing.T) {
	tb := model.NewTable(2, 2)
	tb.Rows[0][0].Text, tb.Rows[0][1].Text = "h1", "h2"
	tb.Rows[1][0].Text, tb.Rows[1][1].Text = "a|b", "c"
	md := tb.ToMarkdown()
	for _, line := range strings.Split(strings.TrimSpace(md), "\n") {
		n := strings.Count(strings.ReplaceAll(line, "\\|", ""), "|")
		if n != 3 {
			t.Fatalf("row %q has %d unescaped pipes, want 3 (2 columns)", line, n)
		}
	}
}

func TestChunkHeadingLevelCapped(t *testing.T) {
	c := &rag.Chunk{ID: "x", Text: "body"}
	c.Metadata.SectionTitle = "Title"
	c.Metadata.HeadingLevel = 5
	opts := rag.DefaultMarkdownOptions()
	opts.HeadingLevelOffset = 3
	opts.MaxHeadingLevel = 0
	md := c.ToMarkdownWithOptions(opts)
	if strings.Contains(md, "#######") {
		t.Fatalf("heading with more than six '#': %q", md)
	}
}

// C15 / R6.12: pptx.replaceAll (the cell escaper behind Table.ToMarkdown) copied the text byte by byte with
// string(s[i]), which encodes each byte as a code point: every non-ASCII character of a table cell came out as mojibake.
func TestPptxTableCellKeepsNonASCII(t *testing.T) {
	tb := &pptx.Table{Columns: 2, Rows: [][]pptx.TableCell{
		{{Text: "Größe"}, {Text: "café | thé"}},
		{{Text: "日本語"}, {Text: "naïve"}},
	}}
	md := tb.ToMarkdown()
	for _, want := range []string{"Größe", "café \\| thé", "日本語", "naïve"} {
		if !strings.Contains(md, want) {
			t.Errorf("Markdown of the slide table lost %q: %q", want, md)
		}
	}
	if !utf8.ValidString(md) {
		t.Errorf("invalid UTF-8: %q", md)
	}
}

// A carriage return is a line ending for a Markdown parser (CommonMark 2.1: LF, CR or CR LF).
func TestTableCellCarriageReturn(t *testing.T) {
	for _, text := range []string{"a\rb", "a\r\nb"} {
		tb := model.NewTable(2, 2)
		tb.Rows[0][0].Text, tb.Rows[0][1].Text = "h1", "h2"
		tb.Rows[1][0].Text, tb.Rows[1][1].Text = text, "c"
		md := tb.ToMarkdown()
		if strings.Contains(md, "\r") {
			t.Errorf("cell %q: the Markdown table holds a carriage return, the row is cut there: %q", text, md)
		}
	}
}
