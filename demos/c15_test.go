package demo

import (
	"strings"
	"testing"

	"github.com/tsawler/tabula/model"
	"github.com/tsawler/tabula/rag"
)

func TestTablePipeEscaped(t *testing.T) {
	tb := model.NewTable(2, 2)
	tb.Rows[0][0].Text, tb.Rows[0][1].Text = "h1", "h2"
	tb.Rows[1][0].Text, tb.Rows[1][1].Text = "a|b", "c"
	md := tb.ToMarkdown()
	for _, line := range strings.Split(strings.TrimSpace(md), "\n") {
		n := strings.Count(strings.ReplaceAll(line, "\\|", ""), "|")
		if n != 3 {
			t.Fatalf("row %q has %d unescaped pipes, want 3 (2 columns)", line, n)
		}
	}
}

func TestChunkHeadingLevelCapped(t *testing.T) {
	c := &rag.Chunk{ID: "x", Text: "body"}
	c.Metadata.SectionTitle = "Title"
	c.Metadata.HeadingLevel = 5
	opts := rag.DefaultMarkdownOptions()
	opts.HeadingLevelOffset = 3
	opts.MaxHeadingLevel = 0
	md := c.ToMarkdownWithOptions(opts)
	if strings.Contains(md, "#######") {
		t.Fatalf("heading with more than six '#': %q", md)
	}
}
