package demo

import (
	"bytes"
	"testing"

	"github.com/tsawler/tabula/core"
)

// C05 / R5.16: a base-85 group above s8W-! (2^32-1) is not the encoding of any four bytes. The decoder accumulated the
// five digits in a uint32, which wraps, and returned four wrong bytes instead of an error.
func TestASCII85GroupAboveRangeIsAnError(t *testing.T) {
	for _, enc := range []string{"s8W-\"~>", "uuuuu~>", "s8W-!s8W.!~>"} {
		s := &core.Stream{Dict: core.Dict{"Filter": core.Name("ASCII85Decode")}, Data: []byte(enc)}
		got, err := s.Decode()
		if err == nil {
			t.Errorf("%q: decoded to % x without an error (the group is above 2^32-1)", enc, got)
		}
	}
	// the largest valid group still decodes
	s := &core.Stream{Dict: core.Dict{"Filter": core.Name("ASCII85Decode")}, Data: []byte("s8W-!~>")}
	got, err := s.Decode()
	if err != nil || !bytes.Equal(got, []byte{0xff, 0xff, 0xff, 0xff}) {
		t.Errorf("s8W-!: % x, %v", got, err)
	}
}
