package demo

import (
	"fmt"
	"strings"
	"testing"
	"unicode"

	"github.com/tsawler/tabula/layout"
	"github.com/tsawler/tabula/text"
)

func nonSpaceC09(s string) string {
	var sb strings.Builder
	for _, r := range s {
		if !unicode.IsSpace(r) {
			sb.WriteRune(r)
		}
	}
	return sb.String()
}

// The page "a list across the column break" of the checker's rule R9.11, built the same way.
func listAcrossColumnsPage() []text.TextFragment {
	ws := []string{"alpha", "beta", "gamma", "delta", "epsilon", "zeta", "eta", "theta", "iota", "kappa", "lambda", "mu", "nu", "xi", "omicron", "pi", "rho", "sigma", "tau", "upsilon", "phi", "chi", "psi", "omega"}
	var fr []text.TextFragment
	k := 700
	line := func(x0, y, size float64, words int) {
		x := x0
		for i := 0; i < words; i++ {
			t := fmt.Sprintf("%s%d", ws[k%len(ws)], k)
			k++
			w := float64(len(t)) * size * 0.5
			fr = append(fr, text.TextFragment{Text: t, X: x, Y: y, Width: w, Height: size, FontSize: size, FontName: "F1"})
			x += w + size*0.3
		}
	}
	bullet := func(x, y float64) {
		fr = append(fr, text.TextFragment{Text: "•", X: x, Y: y, Width: 12, Height: 10, FontSize: 10, FontName: "F1"})
	}
	y := 700.0
	for l := 0; l < 3; l++ {
		line(60, y, 10, 3)
		y -= 14
	}
	for l := 0; l < 2; l++ {
		y -= 10
		bullet(60, y)
		line(78, y, 10, 2)
		y -= 14
	}
	y = 700
	for l := 0; l < 2; l++ {
		bullet(330, y)
		line(348, y, 10, 2)
		y -= 24
	}
	for l := 0; l < 3; l++ {
		line(330, y, 10, 3)
		y -= 14
	}
	return fr
}

func TestAnalysisElementsHoldEachFragmentOnce(t *testing.T) {
	fr := listAcrossColumnsPage()
	res := layout.NewAnalyzer().Analyze(fr, 612, 792)
	joined := ""
	for _, el := range res.Elements {
		joined += el.Text + "\n"
	}
	for _, f := range fr {
		if len(f.Text) < 3 {
			continue
		}
		if k := strings.Count(nonSpaceC09(joined), f.Text); k != 1 {
			t.Errorf("fragment %q appears %d times in the analysis elements", f.Text, k)
		}
	}
	if t.Failed() {
		for i, el := range res.Elements {
			t.Logf("element %d type %v: %q", i, el.Type, el.Text)
		}
	}
}

// The page "a masthead over two notes" of R9.11.
func TestAnalysisElementsMastheadPage(t *testing.T) {
	frag := func(s string, x, y, w, size float64) text.TextFragment {
		return text.TextFragment{Text: s, X: x, Y: y, Width: w, Height: size, FontSize: size, FontName: "F1"}
	}
	fr := []text.TextFragment{
		frag("Vol.", 50, 700, 22, 10), frag("12", 76, 700, 12, 10),
		frag("June", 420, 688, 26, 10), frag("2024", 450, 688, 24, 10),
		frag("DAILY", 40, 664, 150, 48), frag("NEWS", 205, 664, 130, 48),
		frag("Council", 40, 620, 40, 10), frag("approves", 84, 620, 46, 10), frag("budget", 134, 620, 36, 10),
		frag("after", 40, 608, 26, 10), frag("long", 70, 608, 22, 10), frag("debate", 96, 608, 36, 10),
	}
	res := layout.NewAnalyzer().Analyze(fr, 612, 792)
	joined := ""
	for _, el := range res.Elements {
		joined += el.Text + "\n"
	}
	for _, f := range fr {
		if k := strings.Count(nonSpaceC09(joined), f.Text); k != 1 {
			t.Errorf("fragment %q appears %d times in the analysis elements", f.Text, k)
		}
	}
	if t.Failed() {
		for i, el := range res.Elements {
			t.Logf("element %d type %v: %q", i, el.Type, el.Text)
		}
	}
}
