package demo

import (
	"archive/zip"
	"bytes"
	"strings"
	"testing"

	"github.com/tsawler/tabula"
)

func zipOf(t *testing.T, name string, files [][2]string) string {
	var buf bytes.Buffer
	zw := zip.NewWriter(&buf)
	for _, f := range files {
		w, _ := zw.Create(f[0])
		w.Write([]byte(f[1]))
	}
	zw.Close()
	return writeTemp(t, name, buf.Bytes())
}

func slideXML(text string) string {
	return `<?xml version="1.0"?><p:sld xmlns:a="http://schemas.openxmlformats.org/drawingml/2006/main" xmlns:p="http://schemas.openxmlformats.org/presentationml/2006/main"><p:cSld><p:spTree><p:sp><p:nvSpPr><p:cNvPr id="2" name="T"/><p:cNvSpPr/><p:nvPr/></p:nvSpPr><p:txBody><a:bodyPr/><a:p><a:r><a:t>` + text + `</a:t></a:r></a:p></p:txBody></p:sp></p:spTree></p:cSld></p:sld>`
}

func TestPPTXDeclaredOrder(t *testing.T) {
	p := zipOf(t, "deck.pptx", [][2]string{
		{"[Content_Types].xml", `<?xml version="1.0"?><Types xmlns="http://schemas.openxmlformats.org/package/2006/content-types"><Default Extension="xml" ContentType="application/xml"/></Types>`},
		{"ppt/presentation.xml", `<?xml version="1.0"?><p:presentation xmlns:p="http://schemas.openxmlformats.org/presentationml/2006/main" xmlns:r="http://schemas.openxmlformats.org/officeDocument/2006/relationships"><p:sldIdLst><p:sldId id="256" r:id="rId2"/><p:sldId id="257" r:id="rId1"/></p:sldIdLst></p:presentation>`},
		{"ppt/_rels/presentation.xml.rels", `<?xml version="1.0"?><Relationships xmlns="http://schemas.openxmlformats.org/package/2006/relationships"><Relationship Id="rId1" Type="http://schemas.openxmlformats.org/officeDocument/2006/relationships/slide" Target="slides/slide1.xml"/><Relationship Id="rId2" Type="http://schemas.openxmlformats.org/officeDocument/2006/relationships/slide" Target="slides/slide2.xml"/></Relationships>`},
		{"ppt/slides/slide1.xml", slideXML("SECOND-SHOWN")},
		{"ppt/slides/slide2.xml", slideXML("FIRST-SHOWN")},
	})
	txt, _, err := tabula.Open(p).Text()
	if err != nil {
		t.Fatal(err)
	}
	if i, j := strings.Index(txt, "FIRST-SHOWN"), strings.Index(txt, "SECOND-SHOWN"); i < 0 || j < 0 || i > j {
		t.Fatalf("slides not in the order of the presentation's slide list: %q", txt)
	}
}

// C18 / R18.7: a table inside a group shape was not decoded (the group struct lists shapes, pictures and nested
// groups but no graphic frames), so the text of its cells appeared on no page.
func TestPPTXTableInGroup(t *testing.T) {
	tbl := `<p:graphicFrame><p:nvGraphicFramePr><p:cNvPr id="9" name="Tbl"/><p:cNvGraphicFramePr/><p:nvPr/></p:nvGraphicFramePr><a:graphic><a:graphicData uri="http://schemas.openxmlformats.org/drawingml/2006/table"><a:tbl><a:tblGrid><a:gridCol w="1"/></a:tblGrid><a:tr h="1"><a:tc><a:txBody><a:bodyPr/><a:p><a:r><a:t>GROUPEDCELL</a:t></a:r></a:p></a:txBody></a:tc></a:tr></a:tbl></a:graphicData></a:graphic></p:graphicFrame>`
	slide := `<?xml version="1.0"?><p:sld xmlns:a="http://schemas.openxmlformats.org/drawingml/2006/main" xmlns:p="http://schemas.openxmlformats.org/presentationml/2006/main"><p:cSld><p:spTree>` +
		`<p:sp><p:nvSpPr><p:cNvPr id="2" name="T"/><p:cNvSpPr/><p:nvPr/></p:nvSpPr><p:txBody><a:bodyPr/><a:p><a:r><a:t>TOPSHAPE</a:t></a:r></a:p></p:txBody></p:sp>` +
		`<p:grpSp><p:nvGrpSpPr><p:cNvPr id="3" name="G"/><p:cNvGrpSpPr/><p:nvPr/></p:nvGrpSpPr><p:grpSpPr/>` + tbl + `</p:grpSp>` +
		`</p:spTree></p:cSld></p:sld>`
	p := zipOf(t, "deck.pptx", [][2]string{
		{"[Content_Types].xml", `<?xml version="1.0"?><Types xmlns="http://schemas.openxmlformats.org/package/2006/content-types"><Default Extension="xml" ContentType="application/xml"/></Types>`},
		{"ppt/presentation.xml", `<?xml version="1.0"?><p:presentation xmlns:p="http://schemas.openxmlformats.org/presentationml/2006/main" xmlns:r="http://schemas.openxmlformats.org/officeDocument/2006/relationships"><p:sldIdLst><p:sldId id="256" r:id="rId1"/></p:sldIdLst></p:presentation>`},
		{"ppt/_rels/presentation.xml.rels", `<?xml version="1.0"?><Relationships xmlns="http://schemas.openxmlformats.org/package/2006/relationships"><Relationship Id="rId1" Type="http://schemas.openxmlformats.org/officeDocument/2006/relationships/slide" Target="slides/slide1.xml"/></Relationships>`},
		{"ppt/slides/slide1.xml", slide},
	})
	txt, _, err := tabula.Open(p).Text()
	if err != nil {
		t.Fatal(err)
	}
	if !strings.Contains(txt, "TOPSHAPE") || strings.Count(txt, "GROUPEDCELL") != 1 {
		t.Fatalf("text of a table inside a group shape is missing: %q", txt)
	}
}

// C18 / R18.17: the slide list of the presentation (resolved through its relationships) says which parts are slides,
// and parseSlides follows it for any part name; validate() however refused the package before that unless some member
// was called ppt/slides/slide*.xml, so a deck whose slide parts have other names or live elsewhere could not be opened.
func TestPPTXSlidePartsWithOtherNames(t *testing.T) {
	p := zipOf(t, "deck.pptx", [][2]string{
		{"[Content_Types].xml", `<?xml version="1.0"?><Types xmlns="http://schemas.openxmlformats.org/package/2006/content-types"><Default Extension="xml" ContentType="application/xml"/></Types>`},
		{"ppt/presentation.xml", `<?xml version="1.0"?><p:presentation xmlns:p="http://schemas.openxmlformats.org/presentationml/2006/main" xmlns:r="http://schemas.openxmlformats.org/officeDocument/2006/relationships"><p:sldIdLst><p:sldId id="256" r:id="rId2"/><p:sldId id="257" r:id="rId1"/></p:sldIdLst></p:presentation>`},
		{"ppt/_rels/presentation.xml.rels", `<?xml version="1.0"?><Relationships xmlns="http://schemas.openxmlformats.org/package/2006/relationships"><Relationship Id="rId1" Type="http://schemas.openxmlformats.org/officeDocument/2006/relationships/slide" Target="slides/outro.xml"/><Relationship Id="rId2" Type="http://schemas.openxmlformats.org/officeDocument/2006/relationships/slide" Target="deck/intro.xml"/></Relationships>`},
		{"ppt/slides/outro.xml", slideXML("SECOND-SHOWN")},
		{"ppt/deck/intro.xml", slideXML("FIRST-SHOWN")},
	})
	txt, _, err := tabula.Open(p).Text()
	if err != nil {
		t.Fatal(err)
	}
	if i, j := strings.Index(txt, "FIRST-SHOWN"), strings.Index(txt, "SECOND-SHOWN"); i < 0 || j < 0 || i > j {
		t.Fatalf("slides not in the order of the presentation's slide list: %q", txt)
	}
}

func epubAt(t *testing.T, opfPath string, hrefs []string, files [][2]string) string {
	manifest, spine := "", ""
	for i, h := range hrefs {
		id := string(rune('a' + i))
		manifest += `<item id="` + id + `" href="` + h + `" media-type="application/xhtml+xml"/>`
		spine += `<itemref idref="` + id + `"/>`
	}
	all := [][2]string{
		{"mimetype", "application/epub+zip"},
		{"META-INF/container.xml", `<?xml version="1.0"?><container version="1.0" xmlns="urn:oasis:names:tc:opendocument:xmlns:container"><rootfiles><rootfile full-path="` + opfPath + `" media-type="application/oebps-package+xml"/></rootfiles></container>`},
		{opfPath, `<?xml version="1.0"?><package xmlns="http://www.idpf.org/2007/opf" version="3.0"><metadata xmlns:dc="http://purl.org/dc/elements/1.1/"><dc:title>T</dc:title></metadata><manifest>` + manifest + `</manifest><spine>` + spine + `</spine></package>`},
	}
	all = append(all, files...)
	return zipOf(t, "b.epub", all)
}

func ch(s string) string {
	return `<?xml version="1.0"?><html xmlns="http://www.w3.org/1999/xhtml"><head><title>x</title></head><body><p>` + s + `</p></body></html>`
}


// C18 / R18.18: with the package file at the root of the archive resolveHref handed the manifest href back as it is,
// so "./one.xhtml" (a relative reference to the same directory) matched no ZIP member and the chapter was left out.
func TestEpubHrefWithDotSegmentAtRoot(t *testing.T) {
	p := epubAt(t, "content.opf", []string{"./one.xhtml", "sub/../two.xhtml"}, [][2]string{{"one.xhtml", ch("ONE")}, {"two.xhtml", ch("TWO")}})
	txt, _, err := tabula.Open(p).Text()
	if err != nil {
		t.Fatal(err)
	}
	if i, j := strings.Index(txt, "ONE"), strings.Index(txt, "TWO"); i < 0 || j < 0 || i > j {
		t.Fatalf("chapters of the spine missing or out of order: %q", txt)
	}
}
