package demo

import (
	"math"
	"testing"

	"github.com/tsawler/tabula"
)

// formPage: one page with content `page`, whose resources hold font F1 (object 3) and the form XObjects given as
// name -> (dictionary entries, content); further objects may be added through extra.
func formPage(t *testing.T, page string, forms map[string][2]string, extra map[int]string) string {
	w := newPDF()
	w.set(1, "<< /Type /Catalog /Pages 2 0 R >>")
	xo := ""
	n := 20
	for name, f := range forms {
		xo += "/" + name + " " + itoa(n) + " 0 R "
		w.stream(n, "/Type /XObject /Subtype /Form /BBox [0 0 1000 1000] "+f[0], f[1], 0)
		n++
	}
	w.set(10, "<< /Type /Page /Parent 2 0 R /MediaBox [0 0 612 792] /Resources << /Font << /F1 3 0 R >> /XObject << "+xo+">> >> /Contents 11 0 R >>")
	w.stream(11, "", page, 0)
	w.set(2, "<< /Type /Pages /Kids [10 0 R] /Count 1 >>")
	w.set(3, fontObj)
	for k, v := range extra {
		w.set(k, v)
	}
	return writeTemp(t, "form.pdf", w.bytes(1))
}

func itoa(n int) string {
	s := ""
	for n > 0 {
		s = string(rune('0'+n%10)) + s
		n /= 10
	}
	return s
}

func fragmentAt(t *testing.T, path, text string) (x, y float64) {
	frs, _, err := tabula.Open(path).Fragments()
	if err != nil {
		t.Fatalf("Fragments: %v", err)
	}
	for _, f := range frs {
		if f.Text == text {
			return f.X, f.Y
		}
	}
	t.Fatalf("fragment %q not found in %v", text, frs)
	return
}

// A form's /Matrix may be an indirect reference.
func TestFormMatrixIndirect(t *testing.T) {
	p := formPage(t, "/A Do", map[string][2]string{"A": {"/Matrix 40 0 R", "BT /F1 10 Tf 10 10 Td (in) Tj ET"}}, map[int]string{40: "[1 0 0 1 0 300]"})
	if x, y := fragmentAt(t, p, "in"); math.Abs(x-10) > 1e-6 || math.Abs(y-310) > 1e-6 {
		t.Fatalf("text in the form at (%v,%v), want (10,310): the form matrix was not applied", x, y)
	}
}

// The graphics state a form leaves behind does not reach its caller: Do behaves as if wrapped in q … Q.
func TestFormUnbalancedSaveDoesNotLeak(t *testing.T) {
	p := formPage(t, "1 0 0 1 50 50 cm /B Do BT /F1 10 Tf (after) Tj ET",
		map[string][2]string{"B": {"/Matrix [1 0 0 1 0 300]", "q 2 0 0 2 0 0 cm BT /F1 10 Tf (in) Tj ET"}}, nil)
	if x, y := fragmentAt(t, p, "after"); math.Abs(x-50) > 1e-6 || math.Abs(y-50) > 1e-6 {
		t.Fatalf("text after the form at (%v,%v), want (50,50): the form's unbalanced q leaked its matrix", x, y)
	}
}

// A stray Q inside a form does not pop the caller's saved states.
func TestFormStrayRestoreDoesNotPopCaller(t *testing.T) {
	p := formPage(t, "q 1 0 0 1 50 50 cm q /C Do BT /F1 10 Tf (after) Tj ET Q Q BT /F1 10 Tf (end) Tj ET",
		map[string][2]string{"C": {"", "Q BT /F1 10 Tf (in) Tj ET"}}, nil)
	if x, y := fragmentAt(t, p, "after"); math.Abs(x-50) > 1e-6 || math.Abs(y-50) > 1e-6 {
		t.Fatalf("text after the form at (%v,%v), want (50,50)", x, y)
	}
	if x, y := fragmentAt(t, p, "end"); math.Abs(x) > 1e-6 || math.Abs(y) > 1e-6 {
		t.Fatalf("text after the page's own Q Q at (%v,%v), want (0,0)", x, y)
	}
}
