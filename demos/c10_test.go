package demo

import (
	"strings"
	"testing"

	"github.com/tsawler/tabula"
)

// C10 / R10.11: a derived extractor shared its parent's open reader AND the duty to close it. After a non-terminal
// call on the base (PageCount keeps the reader open), a terminal call on a derived extractor closed the reader under
// the base: deriving and using a configured extractor changed the extractor it came from.
func TestDerivedTerminalDoesNotBreakBase(t *testing.T) {
	p := writeTemp(t, "d.pdf", simpleDoc(3))
	base := tabula.Open(p)
	if n, err := base.PageCount(); err != nil || n != 3 {
		t.Fatalf("PageCount = %d, %v", n, err)
	}
	part, _, err := base.Pages(2).Text()
	if err != nil {
		t.Fatal(err)
	}
	all, _, err := base.Text()
	if err != nil {
		t.Fatalf("after a terminal operation on a derived extractor the base fails: %v", err)
	}
	if !strings.Contains(all, strings.TrimSpace(part)) {
		t.Fatalf("base text %q does not contain page 2 text %q", all, part)
	}
	if err := base.Close(); err != nil {
		t.Fatalf("Close after use: %v", err)
	}
}
