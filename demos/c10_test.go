package demo

import (
	"strings"
	"testing"

	"github.com/tsawler/tabula"
)

// C10 / R10.11: a derived extractor shared its parent's open reader AND the duty to close it. After a non-terminal
// call on the base (PageCount keeps the reader open), a terminal call on a derived extractor closed the reader under
// the base: deriving and using a configured extractor changed the extractor it came from.
func TestDerivedTerminalDoesNotBreakBase(t *testing.T) {
	p := writeTemp(t, "d.pdf", simpleDoc(3))
	base := tabula.Open(p)
	if n, err := base.PageCount(); err != nil || n != 3 {
		t.Fatalf("PageCount = %d, %v", n, err)
	}
	part, _, err := base.Pages(2).Text()
	if err != nil {
		t.Fatal(err)
	}
	all, _, err := base.Text()
	if err != nil {
		t.Fatalf("after a terminal operation on a derived extractor the base fails: %v", err)
	}
	if !strings.Contains(all, strings.TrimSpace(part)) {
		t.Fatalf("base text %q does not contain page 2 text %q", all, part)
	}
	if err := base.Close(); err != nil {
		t.Fatalf("Close after use: %v", err)
	}
}

// C10: builder methods derive a new extractor; for a document given from memory (FromHTMLString, FromHTMLReader)
// there is no file to open again, so the derived extractor has to keep the parsed document. The repair daff3ef had
// stopped handing on every reader the parent "owns", which included these: any configured extraction of an in-memory
// HTML document failed with "no filename specified".
func TestDerivedFromInMemoryHTMLKeepsDocument(t *testing.T) {
	src := "<html><body><h1>Title</h1><p>Body text</p></body></html>"
	for name, d := range map[string]*tabula.Extractor{
		"ExcludeHeaders": tabula.FromHTMLString(src).ExcludeHeaders(),
		"ExcludeFooters": tabula.FromHTMLString(src).ExcludeFooters(),
		"FromHTMLReader": tabula.FromHTMLReader(strings.NewReader(src)).ExcludeHeaders(),
	} {
		got, _, err := d.Text()
		if err != nil {
			t.Fatalf("%s: %v", name, err)
		}
		if !strings.Contains(got, "Body text") {
			t.Fatalf("%s: %q lacks the body", name, got)
		}
	}
	// and using a derived extractor does not disturb the base
	base := tabula.FromHTMLString(src)
	if _, _, err := base.ExcludeHeaders().Text(); err != nil {
		t.Fatal(err)
	}
	got, _, err := base.Text()
	if err != nil || !strings.Contains(got, "Body text") {
		t.Fatalf("base after a terminal operation on a derived extractor: %q, %v", got, err)
	}
}
