package demo

import (
	"strings"
	"testing"

	"github.com/tsawler/tabula"
	"github.com/tsawler/tabula/model"
)

const docxCT = `<?xml version="1.0"?><Types xmlns="http://schemas.openxmlformats.org/package/2006/content-types"><Default Extension="xml" ContentType="application/xml"/><Default Extension="rels" ContentType="application/vnd.openxmlformats-package.relationships+xml"/><Override PartName="/word/document.xml" ContentType="application/vnd.openxmlformats-officedocument.wordprocessingml.document.main+xml"/></Types>`
const docxRels = `<?xml version="1.0"?><Relationships xmlns="http://schemas.openxmlformats.org/package/2006/relationships"><Relationship Id="rId1" Type="http://schemas.openxmlformats.org/officeDocument/2006/relationships/officeDocument" Target="word/document.xml"/></Relationships>`

func docxOf(t *testing.T, body string) string {
	return zipOf(t, "d.docx", [][2]string{
		{"[Content_Types].xml", docxCT},
		{"_rels/.rels", docxRels},
		{"word/document.xml", `<?xml version="1.0"?><w:document xmlns:w="http://schemas.openxmlformats.org/wordprocessingml/2006/main" xmlns:r="http://schemas.openxmlformats.org/officeDocument/2006/relationships"><w:body>` + body + `</w:body></w:document>`},
	})
}

func odtOf(t *testing.T, body string) string {
	return zipOf(t, "d.odt", [][2]string{
		{"mimetype", "application/vnd.oasis.opendocument.text"},
		{"content.xml", `<?xml version="1.0"?><office:document-content xmlns:office="urn:oasis:names:tc:opendocument:xmlns:office:1.0" xmlns:text="urn:oasis:names:tc:opendocument:xmlns:text:1.0" xmlns:table="urn:oasis:names:tc:opendocument:xmlns:table:1.0"><office:body><office:text>` + body + `</office:text></office:body></office:document-content>`},
	})
}

// known finding R16.1: docx.(*Reader).extractRunText
func TestDocxTabBeforeText(t *testing.T) {
	p := docxOf(t, `<w:p><w:r><w:t>A</w:t><w:tab/><w:t>B</w:t></w:r></w:p>`)
	txt, _, err := tabula.Open(p).Text()
	if err != nil {
		t.Fatal(err)
	}
	if !strings.Contains(txt, "A\tB") {
		t.Fatalf("inline order lost: %q", txt)
	}
}

// known finding R16.1: odt processParagraph / processHeading
func TestOdtTextAroundSpan(t *testing.T) {
	p := odtOf(t, `<text:h text:outline-level="1">Head <text:span>mid</text:span> tail</text:h><text:p>Hello <text:span>bold</text:span> world</text:p>`)
	txt, _, err := tabula.Open(p).Text()
	if err != nil {
		t.Fatal(err)
	}
	if !strings.Contains(txt, "Hello bold world") || !strings.Contains(txt, "Head mid tail") {
		t.Fatalf("inline order lost: %q", txt)
	}
}

// known finding R16.4: docx paragraphXML.Hyperlinks never read
func TestDocxHyperlinkText(t *testing.T) {
	p := docxOf(t, `<w:p><w:r><w:t>see </w:t></w:r><w:hyperlink r:id="rId9"><w:r><w:t>LINKTEXT</w:t></w:r></w:hyperlink><w:r><w:t> end</w:t></w:r></w:p>`)
	txt, _, err := tabula.Open(p).Text()
	if err != nil {
		t.Fatal(err)
	}
	if !strings.Contains(txt, "LINKTEXT") {
		t.Fatalf("hyperlink text dropped: %q", txt)
	}
}

// R16.2: a vertically merged continuation cell must still occupy its column in Markdown
func TestDocxMarkdownContinuationColumn(t *testing.T) {
	cell := func(props, text string) string {
		return `<w:tc><w:tcPr>` + props + `</w:tcPr><w:p><w:r><w:t>` + text + `</w:t></w:r></w:p></w:tc>`
	}
	p := docxOf(t, `<w:tbl><w:tblGrid><w:gridCol w:w="100"/><w:gridCol w:w="100"/></w:tblGrid>`+
		`<w:tr>`+cell(`<w:vMerge w:val="restart"/>`, "A1")+cell("", "B1")+`</w:tr>`+
		`<w:tr>`+cell(`<w:vMerge/>`, "")+cell("", "B2")+`</w:tr></w:tbl>`)
	md, _, err := tabula.Open(p).ToMarkdown()
	if err != nil {
		t.Fatal(err)
	}
	for _, line := range strings.Split(md, "\n") {
		if strings.Contains(line, "B2") {
			cells := strings.Split(strings.Trim(strings.TrimSpace(line), "|"), "|")
			if len(cells) < 2 || strings.TrimSpace(cells[1]) != "B2" {
				t.Fatalf("B2 is not in the second column: %q", line)
			}
			return
		}
	}
	t.Fatalf("B2 not found in %q", md)
}

// R16.6: paragraphs nested in table cells must not be counted as body paragraphs
func TestDocxTablesBetweenParagraphs(t *testing.T) {
	cell := func(a, b string) string {
		return `<w:tc><w:p><w:r><w:t>` + a + `</w:t></w:r></w:p><w:p><w:r><w:t>` + b + `</w:t></w:r></w:p></w:tc>`
	}
	para := func(s string) string { return `<w:p><w:r><w:t>` + s + `</w:t></w:r></w:p>` }
	p := docxOf(t, para("P0")+`<w:tbl><w:tr>`+cell("T0a", "T0b")+`</w:tr></w:tbl>`+para("P1")+`<w:tbl><w:tr>`+cell("T1a", "T1b")+`</w:tr></w:tbl>`+para("P2"))
	txt, _, err := tabula.Open(p).Text()
	if err != nil {
		t.Fatal(err)
	}
	last := -1
	for _, w := range []string{"P0", "T0a", "P1", "T1a", "P2"} {
		i := strings.Index(txt, w)
		if i < 0 || i < last {
			t.Fatalf("%s missing or out of document order in %q", w, txt)
		}
		last = i
	}
}

// C16 / R16.9: paragraphs and tables inside a block-level content control (<w:sdt><w:sdtContent>, used by Word for
// tables of contents, cover pages and template placeholders) or a custom XML block were not decoded: the body struct
// collects only direct <w:p>/<w:tbl> children.
func TestDocxBlockContentControl(t *testing.T) {
	para := func(s string) string { return `<w:p><w:r><w:t>` + s + `</w:t></w:r></w:p>` }
	p := docxOf(t, para("alpha")+
		`<w:sdt><w:sdtPr><w:alias w:val="x"/></w:sdtPr><w:sdtContent>`+para("beta")+
		`<w:tbl><w:tr><w:tc>`+para("cell")+`</w:tc></w:tr></w:tbl>`+para("gamma")+`</w:sdtContent></w:sdt>`+
		`<w:customXml w:element="e">`+para("delta")+`</w:customXml>`+para("omega"))
	txt, _, err := tabula.Open(p).Text()
	if err != nil {
		t.Fatal(err)
	}
	last := -1
	for _, w := range []string{"alpha", "beta", "cell", "gamma", "delta", "omega"} {
		i := strings.Index(txt, w)
		if i < 0 || strings.Count(txt, w) != 1 {
			t.Errorf("%q returned %d times in %q, want once", w, strings.Count(txt, w), txt)
			continue
		}
		if i < last {
			t.Errorf("%q out of document order in %q", w, txt)
		}
		last = i
	}
}

// C16 / R16.9: the table structs decode only direct <w:tr>, <w:tc> and <w:p> children: a table nested in a cell, and
// rows, cells or cell content wrapped in a content control (repeating sections, form fields) lost their text.
func TestDocxTableContentModel(t *testing.T) {
	para := func(s string) string { return `<w:p><w:r><w:t>` + s + `</w:t></w:r></w:p>` }
	cell := func(s string) string { return `<w:tc>` + s + `</w:tc>` }
	sdt := func(s string) string { return `<w:sdt><w:sdtPr/><w:sdtContent>` + s + `</w:sdtContent></w:sdt>` }
	p := docxOf(t, `<w:tbl>`+
		`<w:tr>`+cell(para("plain"))+cell(sdt(para("incontrol")))+`</w:tr>`+
		`<w:tr>`+cell(para("outer")+`<w:tbl><w:tr>`+cell(para("nested"))+`</w:tr></w:tbl>`+para("after"))+sdt(cell(para("sdtcell")))+`</w:tr>`+
		sdt(`<w:tr>`+cell(para("sdtrow"))+cell(para("lastcell"))+`</w:tr>`)+
		`</w:tbl>`)
	txt, _, err := tabula.Open(p).Text()
	if err != nil {
		t.Fatal(err)
	}
	last := -1
	for _, w := range []string{"plain", "incontrol", "outer", "nested", "after", "sdtcell", "sdtrow", "lastcell"} {
		i := strings.Index(txt, w)
		if i < 0 || strings.Count(txt, w) != 1 {
			t.Errorf("%q returned %d times in %q, want once", w, strings.Count(txt, w), txt)
			continue
		}
		if i < last {
			t.Errorf("%q out of document order in %q", w, txt)
		}
		last = i
	}
}

// C16 / R16.9 (ODT): rows inside <table:table-header-rows> (written by LibreOffice for every table whose heading
// row repeats), lists, headings and nested tables inside a cell, and headings inside a list item were not decoded.
func TestOdtTableContentModel(t *testing.T) {
	cell := func(s string) string { return `<table:table-cell>` + s + `</table:table-cell>` }
	p := odtOf(t, `<table:table table:name="T"><table:table-column table:number-columns-repeated="2"/>`+
		`<table:table-header-rows><table:table-row>`+cell(`<text:p>headA</text:p>`)+cell(`<text:p>headB</text:p>`)+`</table:table-row></table:table-header-rows>`+
		`<table:table-row>`+cell(`<text:p>plain</text:p>`)+cell(`<text:list><text:list-item><text:p>incell</text:p></text:list-item></text:list>`)+`</table:table-row>`+
		`<table:table-rows><table:table-row>`+cell(`<text:h text:outline-level="2">cellhead</text:h>`)+
		cell(`<text:p>outer</text:p><table:table table:name="N"><table:table-column/><table:table-row>`+cell(`<text:p>nested</text:p>`)+`</table:table-row></table:table>`)+`</table:table-row></table:table-rows>`+
		`</table:table>`+
		`<text:list><text:list-item><text:h text:outline-level="1">listhead</text:h></text:list-item><text:list-item><text:p>item</text:p></text:list-item></text:list>`)
	txt, _, err := tabula.Open(p).Text()
	if err != nil {
		t.Fatal(err)
	}
	last := -1
	for _, w := range []string{"headA", "headB", "plain", "incell", "cellhead", "outer", "nested", "listhead", "item"} {
		i := strings.Index(txt, w)
		if i < 0 || strings.Count(txt, w) != 1 {
			t.Errorf("%q returned %d times in %q, want once", w, strings.Count(txt, w), txt)
			continue
		}
		if i < last {
			t.Errorf("%q out of document order in %q", w, txt)
		}
		last = i
	}
}

// C16 / R16.13: a <text:span> is an inline container like the paragraph itself: it may hold <text:s/>, <text:tab/>,
// <text:line-break/>, hyperlinks and further spans (ODF 1.2 part 1, 6.1.7). spanXML kept only the span's direct
// character data, so the text of a nested span and the blanks written as <text:s/> inside a span were lost.
func TestOdtSpanInlineContent(t *testing.T) {
	p := odtOf(t, `<text:p>start <text:span text:style-name="T1">bold <text:span text:style-name="T2">and italic</text:span><text:s text:c="2"/>tail</text:span> end</text:p>`)
	got, _, err := tabula.Open(p).Text()
	if err != nil {
		t.Fatal(err)
	}
	want := "start bold and italic  tail end"
	if strings.TrimSpace(got) != want {
		t.Fatalf("text = %q, want %q", strings.TrimSpace(got), want)
	}
}

// C16 / R16.16: processVerticalMerges recorded the row where a vertical merge starts and reset the record in the very
// same iteration (the else-if for 'not a continuation' follows the assignment), so no continuation cell ever found
// its start: the RowSpan of a vMerge cell stayed 1 in the document model.
func TestDocxVerticalMergeRowSpan(t *testing.T) {
	cell := func(txt, vm string) string {
		pr := ""
		if vm != "" {
			pr = `<w:tcPr><w:vMerge` + vm + `/></w:tcPr>`
		}
		return `<w:tc>` + pr + `<w:p><w:r><w:t>` + txt + `</w:t></w:r></w:p></w:tc>`
	}
	row := func(cells ...string) string { return `<w:tr>` + strings.Join(cells, "") + `</w:tr>` }
	p := docxOf(t, `<w:tbl>`+
		row(cell("tall", ` w:val="restart"`), cell("b1", "")) +
		row(cell("", ` `), cell("b2", "")) +
		row(cell("", ` `), cell("b3", "")) +
		row(cell("last", ""), cell("b4", "")) + `</w:tbl>`)
	doc, _, err := tabula.Open(p).Document()
	if err != nil {
		t.Fatal(err)
	}
	found := false
	for _, pg := range doc.Pages {
		for _, el := range pg.Elements {
			tb, ok := el.(*model.Table)
			if !ok {
				continue
			}
			for _, r := range tb.Rows {
				for _, c := range r {
					if strings.TrimSpace(c.Text) == "tall" {
						found = true
						if c.RowSpan != 3 {
							t.Errorf("the cell merged over three rows has RowSpan %d in the document model", c.RowSpan)
						}
					}
					if strings.TrimSpace(c.Text) == "last" && c.RowSpan != 1 {
						t.Errorf("the unmerged cell has RowSpan %d", c.RowSpan)
					}
				}
			}
		}
	}
	if !found {
		t.Fatalf("table cell not found in the document model")
	}
}

// C16: <w:vMerge w:val="continue"/> is the explicit spelling of a continuation cell (ISO/IEC 29500-1 17.4.85; the
// attribute defaults to continue when absent). parseCell only recognised the attribute-less form, so the explicit one
// was taken for a cell of its own and the merge above it ended there (RowSpan 1).
func TestDocxVerticalMergeExplicitContinue(t *testing.T) {
	cell := func(txt, vm string) string {
		pr := ""
		if vm != "" {
			pr = `<w:tcPr><w:vMerge` + vm + `/></w:tcPr>`
		}
		return `<w:tc>` + pr + `<w:p><w:r><w:t>` + txt + `</w:t></w:r></w:p></w:tc>`
	}
	row := func(cells ...string) string { return `<w:tr>` + strings.Join(cells, "") + `</w:tr>` }
	p := docxOf(t, `<w:tbl>`+
		row(cell("tall", ` w:val="restart"`), cell("b1", "")) +
		row(cell("", ` w:val="continue"`), cell("b2", "")) + `</w:tbl>`)
	doc, _, err := tabula.Open(p).Document()
	if err != nil {
		t.Fatal(err)
	}
	for _, pg := range doc.Pages {
		for _, el := range pg.Elements {
			tb, ok := el.(*model.Table)
			if !ok {
				continue
			}
			for _, r := range tb.Rows {
				for _, c := range r {
					if strings.TrimSpace(c.Text) == "tall" && c.RowSpan != 2 {
						t.Errorf("the cell merged over two rows (explicit continue) has RowSpan %d", c.RowSpan)
					}
				}
			}
		}
	}
}
