module demo

go 1.18

require github.com/tsawler/tabula v0.0.0

require (
	golang.org/x/image v0.18.0 // indirect
	golang.org/x/net v0.20.0 // indirect
	golang.org/x/text v0.16.0 // indirect
)

replace github.com/tsawler/tabula => /repo
