package demo

import (
	"bytes"
	"fmt"
	"strings"
	"testing"

	"github.com/tsawler/tabula"
	"github.com/tsawler/tabula/reader"
)

// MediaBox and Resources live on the grandparent Pages node.
func TestInheritFromGrandparent(t *testing.T) {
	w := newPDF()
	w.set(1, "<< /Type /Catalog /Pages 2 0 R >>")
	w.set(2, "<< /Type /Pages /Kids [4 0 R] /Count 1 /MediaBox [0 0 500 600] /Resources << /Font << /F1 3 0 R >> >> >>")
	w.set(3, fontObj)
	w.set(4, "<< /Type /Pages /Parent 2 0 R /Kids [5 0 R] /Count 1 >>")
	w.set(5, "<< /Type /Page /Parent 4 0 R /Contents 6 0 R >>")
	w.stream(6, "", "BT /F1 12 Tf 72 500 Td (Hello) Tj ET", 0)
	p := writeTemp(t, "a.pdf", w.bytes(1))
	r, err := reader.Open(p)
	if err != nil {
		t.Fatal(err)
	}
	defer r.Close()
	pg, err := r.GetPage(0)
	if err != nil {
		t.Fatal(err)
	}
	if _, err := pg.MediaBox(); err != nil {
		t.Fatalf("MediaBox inherited from grandparent not found: %v", err)
	}
	if _, err := pg.Resources(); err != nil {
		t.Fatalf("Resources inherited from grandparent not found: %v", err)
	}
}

// Content split over two streams between two tokens: "(A) Tj" | "ET BT ... (B) Tj ET".
func TestSplitContentStreams(t *testing.T) {
	w := newPDF()
	w.set(1, "<< /Type /Catalog /Pages 2 0 R >>")
	w.set(2, "<< /Type /Pages /Kids [5 0 R] /Count 1 >>")
	w.set(3, fontObj)
	w.set(5, "<< /Type /Page /Parent 2 0 R /MediaBox [0 0 612 792] /Resources << /Font << /F1 3 0 R >> >> /Contents [6 0 R 7 0 R] >>")
	w.stream(6, "", "BT /F1 12 Tf 72 700 Td (Alpha) Tj", 0)
	w.stream(7, "", "ET BT /F1 12 Tf 72 680 Td (Beta) Tj ET", 0)
	p := writeTemp(t, "b.pdf", w.bytes(1))
	txt, _, err := tabula.Open(p).Text()
	if err != nil {
		t.Fatal(err)
	}
	if !strings.Contains(txt, "Alpha") || !strings.Contains(txt, "Beta") {
		t.Fatalf("text lost when content is split between streams: %q", txt)
	}
}

// A content stream longer than the parser's read-ahead whose /Length is an indirect
// object placed after the stream.
func TestIndirectLengthLongStream(t *testing.T) {
	var sb strings.Builder
	sb.WriteString("BT /F1 10 Tf 72 760 Td 12 TL\n")
	for i := 0; i < 400; i++ {
		fmt.Fprintf(&sb, "(line number %04d of the long stream) Tj T*\n", i)
	}
	sb.WriteString("(THE-END) Tj ET")
	w := newPDF()
	w.set(1, "<< /Type /Catalog /Pages 2 0 R >>")
	w.set(2, "<< /Type /Pages /Kids [5 0 R] /Count 1 >>")
	w.set(3, fontObj)
	w.set(5, "<< /Type /Page /Parent 2 0 R /MediaBox [0 0 612 792] /Resources << /Font << /F1 3 0 R >> >> /Contents 6 0 R >>")
	w.stream(6, "", sb.String(), 9)
	p := writeTemp(t, "c.pdf", w.bytes(1))
	txt, _, err := tabula.Open(p).Text()
	if err != nil {
		t.Fatalf("indirect /Length on a long stream: %v", err)
	}
	if !strings.Contains(txt, "THE-END") || !strings.Contains(txt, "line number 0399") {
		t.Fatalf("text of long stream with indirect /Length is incomplete (%d bytes)", len(txt))
	}
}

func TestPagesSelectionNumber(t *testing.T) {
	p := writeTemp(t, "d.pdf", simpleDoc(4))
	doc, _, err := tabula.Open(p).Pages(3).Document()
	if err != nil {
		t.Fatal(err)
	}
	if len(doc.Pages) != 1 || doc.Pages[0].Number != 3 {
		t.Fatalf("Pages(3).Document() reports page number %d", doc.Pages[0].Number)
	}
}

// The classic cross-reference section in its other legal spellings: the trailer dictionary on the line of the
// keyword, spread over lines with a nested dictionary, and CR as the only end-of-line marker.
func TestXRefTrailerSpellings(t *testing.T) {
	base := simpleDoc(2)
	want := ""
	{
		p := writeTemp(t, "base.pdf", base)
		txt, _, err := tabula.Open(p).Text()
		if err != nil {
			t.Fatal(err)
		}
		want = txt
	}
	idx := bytes.LastIndex(base, []byte("trailer\n<<"))
	if idx < 0 {
		t.Fatal("writer changed")
	}
	sameLine := append(append([]byte{}, base[:idx]...), bytes.Replace(base[idx:], []byte("trailer\n<<"), []byte("trailer <<"), 1)...)
	nested := append(append([]byte{}, base[:idx]...), bytes.Replace(base[idx:], []byte("trailer\n<< /Size"), []byte("trailer\n<< /Info << /Producer (x) >>\n/Size"), 1)...)
	crOnly := bytes.ReplaceAll(base, []byte("\n"), []byte("\r")) // same length: offsets stay valid
	for name, data := range map[string][]byte{"trailer and dictionary on one line": sameLine, "nested dictionary over two lines": nested, "CR-only line endings": crOnly} {
		p := writeTemp(t, "v.pdf", data)
		txt, _, err := tabula.Open(p).Text()
		if err != nil {
			t.Errorf("%s: %v", name, err)
			continue
		}
		if txt != want {
			t.Errorf("%s: text %q, want %q", name, txt, want)
		}
	}
}
