package demo

import (
	"strings"
	"testing"
	"unicode/utf8"

	"github.com/tsawler/tabula/model"
	"github.com/tsawler/tabula/rag"
)

func TestSplitUTF8(t *testing.T) {
	text := strings.Repeat("日本語のテキスト", 30)
	cfg := rag.DefaultSizeConfig()
	cfg.Max = rag.SizeLimit{Value: 50, Unit: rag.SizeUnitCharacters, Type: rag.LimitTypeHard}
	cfg.Target = rag.SizeLimit{Value: 40, Unit: rag.SizeUnitCharacters, Type: rag.LimitTypeSoft}
	cfg.Min = rag.SizeLimit{Value: 1, Unit: rag.SizeUnitCharacters, Type: rag.LimitTypeSoft}
	pieces := rag.NewSizeCalculatorWithConfig(cfg).SplitToSize(text, nil)
	bad := 0
	for _, p := range pieces {
		if !utf8.ValidString(p) {
			bad++
		}
	}
	if bad > 0 {
		t.Fatalf("%d of %d pieces are invalid UTF-8", bad, len(pieces))
	}
}

func TestOverlapUTF8(t *testing.T) {
	text := strings.Repeat("日本語のテキスト", 30)
	for _, pw := range []bool{false, true} {
		oc := rag.DefaultOverlapConfig()
		oc.Strategy = rag.OverlapCharacter
		oc.Size = 50
		oc.MinOverlap = 0
		oc.MaxOverlap = 40
		oc.PreserveWords = pw
		r := rag.NewOverlapGeneratorWithConfig(oc).GenerateOverlap(text)
		if !utf8.ValidString(r.Text) {
			t.Fatalf("overlap (PreserveWords=%v) is invalid UTF-8: %q", pw, r.Text)
		}
	}
}

// the hard maximum: words but no sentence end before the limit, a sentence end shortly after it
func TestSplitHardMaxForwardSearch(t *testing.T) {
	var sb strings.Builder
	for sb.Len() < 2000 {
		// 150 bytes of plain words, then a full stop 30 bytes later than a multiple of the limit would like
		sb.WriteString(strings.Repeat("lorem ipsum dolor sit amet ", 5))
		sb.WriteString("consectetur adipiscing elit. ")
	}
	text := sb.String()
	for _, max := range []int{100, 120, 150} {
		cfg := rag.DefaultSizeConfig()
		cfg.Max = rag.SizeLimit{Value: max, Unit: rag.SizeUnitCharacters, Type: rag.LimitTypeHard}
		cfg.Target = rag.SizeLimit{Value: max - 20, Unit: rag.SizeUnitCharacters, Type: rag.LimitTypeSoft}
		cfg.Min = rag.SizeLimit{Value: 1, Unit: rag.SizeUnitCharacters, Type: rag.LimitTypeSoft}
		for _, p := range rag.NewSizeCalculatorWithConfig(cfg).SplitToSize(text, nil) {
			if len(p) > max {
				t.Fatalf("max %d: piece of %d bytes although every word is a break opportunity: %q", max, len(p), p)
			}
		}
	}
}

// TestSentenceSplitOneLetterSentence: a one-capital "sentence" right after a sentence end ("... the U.S.A. last year")
// made the sentence splitter look three bytes behind in a two-byte buffer (fixed: index out of range [-1]).
func TestSentenceSplitOneLetterSentence(t *testing.T) {
	defer func() {
		if r := recover(); r != nil {
			t.Fatalf("panic: %v", r)
		}
	}()
	body := strings.Repeat("This sentence fills the paragraph up. ", 80) + "It was made in the U.S.A. last year. Hi.A. b."
	doc := model.NewDocument()
	pg := model.NewPage(612, 792)
	pg.Layout = &model.PageLayout{Paragraphs: []model.ParagraphInfo{{Text: body}}}
	doc.AddPage(pg)
	cfg := rag.DefaultChunkerConfig()
	cfg.MaxChunkSize = 400
	res, err := rag.NewChunkerWithConfig(cfg).Chunk(doc)
	if err != nil {
		t.Fatal(err)
	}
	var all []string
	for _, c := range res.Chunks {
		all = append(all, c.Text)
	}
	if !strings.Contains(strings.Join(all, " "), "last year") {
		t.Fatalf("text lost: %q", all)
	}
}

// C13 / R13.10: a size configuration written as a struct literal leaves TokensPerChar zero ("default: 0.25", which
// EstimateTokens applies). estimatePosition divided by the raw field: +Inf, converted to int the most negative integer,
// and SplitToSize indexed the text at -2^63.
func TestSplitWithTokenLimitAndDefaultRatio(t *testing.T) {
	cfg := rag.SizeConfig{
		Target: rag.SizeLimit{Value: 40, Unit: rag.SizeUnitTokens, Type: rag.LimitTypeSoft},
		Max:    rag.SizeLimit{Value: 50, Unit: rag.SizeUnitTokens, Type: rag.LimitTypeHard},
	}
	sc := rag.NewSizeCalculatorWithConfig(cfg)
	text := strings.Repeat("word and another word. ", 60)
	var pieces []string
	func() {
		defer func() {
			if r := recover(); r != nil {
				t.Fatalf("SplitToSize panicked: %v", r)
			}
		}()
		pieces = sc.SplitToSize(text, nil)
	}()
	if len(pieces) < 2 {
		t.Fatalf("%d pieces", len(pieces))
	}
	if got, want := strings.Join(strings.Fields(strings.Join(pieces, " ")), ""), strings.Join(strings.Fields(text), ""); got != want {
		t.Errorf("the pieces do not add up to the text")
	}
	for _, p := range pieces {
		if sc.EstimateTokens(p) > 50 {
			t.Errorf("a piece of %d estimated tokens exceeds the hard maximum of 50", sc.EstimateTokens(p))
		}
	}
}

// C13 / R13.11: when the overlap taken from the end of the previous chunk exceeds MaxOverlap it was cut down by keeping
// its FIRST sentences (or its first MaxOverlap bytes), so what was prepended to the next chunk was a piece from the
// middle of the previous chunk, not its end.
func TestTruncatedOverlapIsStillASuffix(t *testing.T) {
	prev := "Alpha comes first here. Beta stands in the middle. Gamma closes the chunk."
	og := rag.NewOverlapGeneratorWithConfig(rag.OverlapConfig{Strategy: rag.OverlapSentence, Size: 3, MaxOverlap: 55, PreserveWords: true})
	ov := og.GenerateOverlap(prev)
	if ov.Text == "" || !strings.HasSuffix(prev, ov.Text) {
		t.Errorf("sentence overlap %q is not a suffix of the previous chunk", ov.Text)
	}
	og = rag.NewOverlapGeneratorWithConfig(rag.OverlapConfig{Strategy: rag.OverlapCharacter, Size: 40, MaxOverlap: 20, PreserveWords: true})
	long := "one two three four five six seven eight nine ten eleven twelve thirteen fourteen"
	ov = og.GenerateOverlap(long)
	if ov.Text == "" || !strings.HasSuffix(long, ov.Text) {
		t.Errorf("overlap %q cut down to MaxOverlap is not a suffix of the previous chunk", ov.Text)
	}
}

// C13 / R13.3: ApplyOverlapToChunks writes the overlapped text back into the chunk it was given and takes the next
// overlap from that chunk, so a chunk shorter than the overlap size hands on text it inherited, not its own.
func TestOverlapComesFromThePreviousChunksOwnText(t *testing.T) {
	chunks := []*rag.Chunk{
		{ID: "0", Text: "The first chunk talks about apples and pears at some length."},
		{ID: "1", Text: "Tiny."},
		{ID: "2", Text: "The third chunk is about something else entirely."},
	}
	out := rag.ApplyOverlapToChunks(chunks, rag.OverlapConfig{Strategy: rag.OverlapCharacter, Size: 30, MaxOverlap: 100, PreserveWords: true})
	if got := out[2].OverlapPrefix; !strings.HasSuffix("Tiny.", got) || got == "" {
		t.Errorf("the overlap given to chunk 2 is %q, which is not a suffix of chunk 1's own text \"Tiny.\"", got)
	}
}
