package demo

import (
	"strings"
	"testing"

	"github.com/tsawler/tabula"
)

func xlsxOf(t *testing.T, sheetData string) string {
	return zipOf(t, "d.xlsx", [][2]string{
		{"[Content_Types].xml", `<?xml version="1.0"?><Types xmlns="http://schemas.openxmlformats.org/package/2006/content-types"><Default Extension="xml" ContentType="application/xml"/><Default Extension="rels" ContentType="application/vnd.openxmlformats-package.relationships+xml"/><Override PartName="/xl/workbook.xml" ContentType="application/vnd.openxmlformats-officedocument.spreadsheetml.sheet.main+xml"/><Override PartName="/xl/worksheets/sheet1.xml" ContentType="application/vnd.openxmlformats-officedocument.spreadsheetml.worksheet+xml"/></Types>`},
		{"_rels/.rels", `<?xml version="1.0"?><Relationships xmlns="http://schemas.openxmlformats.org/package/2006/relationships"><Relationship Id="rId1" Type="http://schemas.openxmlformats.org/officeDocument/2006/relationships/officeDocument" Target="xl/workbook.xml"/></Relationships>`},
		{"xl/workbook.xml", `<?xml version="1.0"?><workbook xmlns="http://schemas.openxmlformats.org/spreadsheetml/2006/main" xmlns:r="http://schemas.openxmlformats.org/officeDocument/2006/relationships"><sheets><sheet name="S" sheetId="1" r:id="rId1"/></sheets></workbook>`},
		{"xl/_rels/workbook.xml.rels", `<?xml version="1.0"?><Relationships xmlns="http://schemas.openxmlformats.org/package/2006/relationships"><Relationship Id="rId1" Type="http://schemas.openxmlformats.org/officeDocument/2006/relationships/worksheet" Target="worksheets/sheet1.xml"/></Relationships>`},
		{"xl/worksheets/sheet1.xml", `<?xml version="1.0"?><worksheet xmlns="http://schemas.openxmlformats.org/spreadsheetml/2006/main"><sheetData>` + sheetData + `</sheetData></worksheet>`},
	})
}

// C17 / R17.6: an inline string cell written as rich text (<is><r><t>…</t></r>…</is>, the same CT_Rst content as a
// shared string item) came out empty: the inline-string struct decoded only a direct <t>.
func TestXlsxInlineRichText(t *testing.T) {
	p := xlsxOf(t, `<row r="1"><c r="A1" t="inlineStr"><is><t>plain</t></is></c>`+
		`<c r="B1" t="inlineStr"><is><r><t>rich</t></r><r><rPr><b/></rPr><t>text</t></r><rPh sb="0" eb="1"><t>PHONETIC</t></rPh></is></c></row>`)
	txt, _, err := tabula.Open(p).Text()
	if err != nil {
		t.Fatal(err)
	}
	if !strings.Contains(txt, "plain\trichtext") || strings.Contains(txt, "PHONETIC") {
		t.Fatalf("inline rich text lost or phonetic text leaked: %q", txt)
	}
}
