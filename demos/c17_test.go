package demo

import (
	"strings"
	"testing"

	"github.com/tsawler/tabula"
	"github.com/tsawler/tabula/model"
)

func xlsxOf(t *testing.T, sheetData string) string {
	return zipOf(t, "d.xlsx", [][2]string{
		{"[Content_Types].xml", `<?xml version="1.0"?><Types xmlns="http://schemas.openxmlformats.org/package/2006/content-types"><Default Extension="xml" ContentType="application/xml"/><Default Extension="rels" ContentType="application/vnd.openxmlformats-package.relationships+xml"/><Override PartName="/xl/workbook.xml" ContentType="application/vnd.openxmlformats-officedocument.spreadsheetml.sheet.main+xml"/><Override PartName="/xl/worksheets/sheet1.xml" ContentType="application/vnd.openxmlformats-officedocument.spreadsheetml.worksheet+xml"/></Types>`},
		{"_rels/.rels", `<?xml version="1.0"?><Relationships xmlns="http://schemas.openxmlformats.org/package/2006/relationships"><Relationship Id="rId1" Type="http://schemas.openxmlformats.org/officeDocument/2006/relationships/officeDocument" Target="xl/workbook.xml"/></Relationships>`},
		{"xl/workbook.xml", `<?xml version="1.0"?><workbook xmlns="http://schemas.openxmlformats.org/spreadsheetml/2006/main" xmlns:r="http://schemas.openxmlformats.org/officeDocument/2006/relationships"><sheets><sheet name="S" sheetId="1" r:id="rId1"/></sheets></workbook>`},
		{"xl/_rels/workbook.xml.rels", `<?xml version="1.0"?><Relationships xmlns="http://schemas.openxmlformats.org/package/2006/relationships"><Relationship Id="rId1" Type="http://schemas.openxmlformats.org/officeDocument/2006/relationships/worksheet" Target="worksheets/sheet1.xml"/></Relationships>`},
		{"xl/worksheets/sheet1.xml", `<?xml version="1.0"?><worksheet xmlns="http://schemas.openxmlformats.org/spreadsheetml/2006/main"><sheetData>` + sheetData + `</sheetData></worksheet>`},
	})
}

// C17 / R17.6: an inline string cell written as rich text (<is><r><t>…</t></r>…</is>, the same CT_Rst content as a
// shared string item) came out empty: the inline-string struct decoded only a direct <t>.
func TestXlsxInlineRichText(t *testing.T) {
	p := xlsxOf(t, `<row r="1"><c r="A1" t="inlineStr"><is><t>plain</t></is></c>`+
		`<c r="B1" t="inlineStr"><is><r><t>rich</t></r><r><rPr><b/></rPr><t>text</t></r><rPh sb="0" eb="1"><t>PHONETIC</t></rPh></is></c></row>`)
	txt, _, err := tabula.Open(p).Text()
	if err != nil {
		t.Fatal(err)
	}
	if !strings.Contains(txt, "plain\trichtext") || strings.Contains(txt, "PHONETIC") {
		t.Fatalf("inline rich text lost or phonetic text leaked: %q", txt)
	}
}

// C17 / R17.14: the tab-separated text wrote cell values as they are. A cell with a line break (Alt+Enter) or a tab
// started a new line / field, so every later cell of the sheet was no longer at line r, field c.
func TestXlsxTextGridSurvivesLineBreaksInCells(t *testing.T) {
	p := xlsxOf(t, `<row r="1"><c r="A1" t="inlineStr"><is><t>h1</t></is></c><c r="B1" t="inlineStr"><is><t>h2</t></is></c></row>`+
		`<row r="2"><c r="A2" t="inlineStr"><is><t>line1&#10;line2</t></is></c><c r="B2" t="inlineStr"><is><t>tab&#9;inside</t></is></c></row>`+
		`<row r="3"><c r="A3" t="inlineStr"><is><t>a3</t></is></c><c r="B3" t="inlineStr"><is><t>b3</t></is></c></row>`)
	txt, _, err := tabula.Open(p).Text()
	if err != nil {
		t.Fatal(err)
	}
	lines := strings.Split(txt, "\n")
	if len(lines) != 3 {
		t.Fatalf("3 rows became %d lines: %q", len(lines), txt)
	}
	for i, l := range lines {
		if f := strings.Split(l, "\t"); len(f) != 2 {
			t.Errorf("line %d has %d fields, want 2: %q", i+1, len(f), l)
		}
	}
	if f := strings.Split(lines[2], "\t"); f[0] != "a3" || f[len(f)-1] != "b3" {
		t.Errorf("A3/B3 are not at line 3: %q", lines[2])
	}
	if !strings.Contains(lines[1], "line1") || !strings.Contains(lines[1], "line2") || !strings.Contains(lines[1], "inside") {
		t.Errorf("row 2 lost text: %q", lines[1])
	}
}

// C17 / R17.15: the header row of the Markdown table and the whole document model copied Cell.Value without looking at
// the merge state, so a covered cell of a merged region that still holds a value in the file showed it.
func TestXlsxCoveredCellsAreBlankEverywhere(t *testing.T) {
	sheet := `<row r="1"><c r="A1" t="inlineStr"><is><t>top</t></is></c><c r="B1" t="inlineStr"><is><t>STALE1</t></is></c></row>`+
		`<row r="2"><c r="A2" t="inlineStr"><is><t>left</t></is></c><c r="B2" t="inlineStr"><is><t>b2</t></is></c></row>`+
		`<row r="3"><c r="A3" t="inlineStr"><is><t>STALE3</t></is></c><c r="B3" t="inlineStr"><is><t>b3</t></is></c></row>`
	p := zipOf(t, "d.xlsx", [][2]string{
		{"[Content_Types].xml", `<?xml version="1.0"?><Types xmlns="http://schemas.openxmlformats.org/package/2006/content-types"><Default Extension="xml" ContentType="application/xml"/><Default Extension="rels" ContentType="application/vnd.openxmlformats-package.relationships+xml"/><Override PartName="/xl/workbook.xml" ContentType="application/vnd.openxmlformats-officedocument.spreadsheetml.sheet.main+xml"/><Override PartName="/xl/worksheets/sheet1.xml" ContentType="application/vnd.openxmlformats-officedocument.spreadsheetml.worksheet+xml"/></Types>`},
		{"_rels/.rels", `<?xml version="1.0"?><Relationships xmlns="http://schemas.openxmlformats.org/package/2006/relationships"><Relationship Id="rId1" Type="http://schemas.openxmlformats.org/officeDocument/2006/relationships/officeDocument" Target="xl/workbook.xml"/></Relationships>`},
		{"xl/workbook.xml", `<?xml version="1.0"?><workbook xmlns="http://schemas.openxmlformats.org/spreadsheetml/2006/main" xmlns:r="http://schemas.openxmlformats.org/officeDocument/2006/relationships"><sheets><sheet name="S" sheetId="1" r:id="rId1"/></sheets></workbook>`},
		{"xl/_rels/workbook.xml.rels", `<?xml version="1.0"?><Relationships xmlns="http://schemas.openxmlformats.org/package/2006/relationships"><Relationship Id="rId1" Type="http://schemas.openxmlformats.org/officeDocument/2006/relationships/worksheet" Target="worksheets/sheet1.xml"/></Relationships>`},
		{"xl/worksheets/sheet1.xml", `<?xml version="1.0"?><worksheet xmlns="http://schemas.openxmlformats.org/spreadsheetml/2006/main"><sheetData>` + sheet + `</sheetData><mergeCells count="2"><mergeCell ref="A1:B1"/><mergeCell ref="A2:A3"/></mergeCells></worksheet>`},
	})
	md, _, err := tabula.Open(p).ToMarkdown()
	if err != nil {
		t.Fatal(err)
	}
	if strings.Contains(md, "STALE") {
		t.Errorf("Markdown shows the value of a covered cell: %q", md)
	}
	doc, _, err := tabula.Open(p).Document()
	if err != nil {
		t.Fatal(err)
	}
	for _, pg := range doc.Pages {
		for _, e := range pg.Elements {
			if tb, ok := e.(*model.Table); ok {
				for _, r := range tb.Rows {
					for _, c := range r {
						if strings.Contains(c.Text, "STALE") {
							t.Errorf("the document model shows the value of a covered cell: %q", c.Text)
						}
					}
				}
			}
		}
	}
	txt, _, _ := tabula.Open(p).Text()
	if strings.Contains(txt, "STALE") || !strings.Contains(txt, "top") || !strings.Contains(txt, "left") {
		t.Errorf("text: %q", txt)
	}
}
