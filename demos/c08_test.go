package demo

import (
	"math"
	"testing"

	"github.com/tsawler/tabula/text"
)

func TestCmTdOrder(t *testing.T) {
	prog := "1 0 0 1 100 100 cm 2 0 0 2 0 0 cm BT /F1 10 Tf 10 10 Td (A) Tj ET"
	fr, err := text.NewExtractor().ExtractFromBytes([]byte(prog))
	if err != nil || len(fr) == 0 {
		t.Fatal(err, len(fr))
	}
	if math.Abs(fr[0].X-120) > 1e-6 || math.Abs(fr[0].Y-120) > 1e-6 {
		t.Fatalf("origin (%v,%v), ISO 32000 says (120,120)", fr[0].X, fr[0].Y)
	}
	prog2 := "BT /F1 1 Tf 12 0 0 12 50 700 Tm (A) Tj 0 -1.2 Td (B) Tj ET"
	fr, err = text.NewExtractor().ExtractFromBytes([]byte(prog2))
	if err != nil || len(fr) < 2 {
		t.Fatal(err, len(fr))
	}
	if math.Abs((fr[0].Y-fr[1].Y)-14.4) > 1e-6 {
		t.Fatalf("line advance %v, want 14.4", fr[0].Y-fr[1].Y)
	}
}

// TestTJKeepsLineMatrix: a TJ adjustment moves the text position, not the start of the line (fixed by cc32796).
func TestTJKeepsLineMatrix(t *testing.T) {
	prog := "BT /F1 10 Tf 100 700 Td [(AB) -2000 (CD)] TJ 0 -14 Td (EF) Tj ET"
	fr, err := text.NewExtractor().ExtractFromBytes([]byte(prog))
	if err != nil || len(fr) == 0 {
		t.Fatal(err, len(fr))
	}
	last := fr[len(fr)-1]
	if math.Abs(last.X-100) > 1e-6 {
		t.Fatalf("EF starts at x=%v; Td is relative to the line matrix, which TJ does not move: want 100", last.X)
	}
}

// TestFontSizeUnderRotatedTextMatrix: a rotation moves the scale of the text matrix off the diagonal (fixed).
func TestFontSizeUnderRotatedTextMatrix(t *testing.T) {
	for _, tm := range []string{"0 1 -1 0 100 100", "0.7071 0.7071 -0.7071 0.7071 100 100", "1 0 0 1 100 100", "0 -2 2 0 100 100"} {
		fr, err := text.NewExtractor().ExtractFromBytes([]byte("BT /F1 12 Tf " + tm + " Tm (ab) Tj ET"))
		if err != nil || len(fr) == 0 {
			t.Fatal(err, len(fr))
		}
		want := 12.0
		if tm == "0 -2 2 0 100 100" {
			want = 24
		}
		if math.Abs(fr[0].FontSize-want) > 0.01 {
			t.Errorf("Tm [%s]: font size %v, want %v", tm, fr[0].FontSize, want)
		}
	}
}
