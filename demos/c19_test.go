package demo

import (
	"strings"
	"testing"

	"github.com/tsawler/tabula/htmldoc"
)

// C19 / R19.10: text of block children of a list item (the common <li><p>…</p></li>) was dropped: getDirectTextContent
// skipped p, div, blockquote and table while the li case of the walk only descends into nested ul/ol. Fixed by 9071378.
func TestListItemBlockChildren(t *testing.T) {
	src := `<html><body><ul><li><p>alpha</p></li><li><div>beta</div></li><li>gamma<blockquote>delta</blockquote></li>` +
		`<li><table><tr><td>cell</td></tr></table></li><li>outer<ul><li><p>inner</p></li></ul></li></ul></body></html>`
	r, err := htmldoc.OpenReader(strings.NewReader(src))
	if err != nil {
		t.Fatal(err)
	}
	txt, err := r.TextWithOptions(htmldoc.ExtractOptions{})
	if err != nil {
		t.Fatal(err)
	}
	for _, w := range []string{"alpha", "beta", "gamma", "delta", "cell", "outer", "inner"} {
		if n := strings.Count(txt, w); n != 1 {
			t.Errorf("%q returned %d times in %q, want once", w, n, txt)
		}
	}
}

// C19 / R19.11: rows of a <tfoot> section were not parsed (parseTable dispatches on thead, tbody and tr only), so the
// text of their cells was lost.
func TestTableFootRows(t *testing.T) {
	src := `<html><body><table><thead><tr><th>Item</th><th>Cost</th></tr></thead>` +
		`<tbody><tr><td>apple</td><td>3</td></tr></tbody><tfoot><tr><td>total</td><td>seven</td></tr></tfoot></table></body></html>`
	r, err := htmldoc.OpenReader(strings.NewReader(src))
	if err != nil {
		t.Fatal(err)
	}
	txt, err := r.TextWithOptions(htmldoc.ExtractOptions{})
	if err != nil {
		t.Fatal(err)
	}
	for _, w := range []string{"Item", "apple", "total", "seven"} {
		if n := strings.Count(txt, w); n != 1 {
			t.Errorf("%q returned %d times in %q, want once", w, n, txt)
		}
	}
}

// C19 / R19.13: a paragraph, heading or table met as a direct child of a list flushed the pending items AND cleared
// ctx.inList, so every later <li> of the same list was ignored; an <li> outside any list was ignored too.
func TestListItemsAfterBlockInsideListAreKept(t *testing.T) {
	for _, src := range []string{
		`<ul><li>one</li><p>para inside list</p><li>two</li></ul><p>after</p>`,
		`<ol><li>one</li><h3>heading inside list</h3><li>two</li></ol>`,
		`<ul><li>one</li><table><tr><td>cell</td></tr></table><li>two</li></ul>`,
		`<div><li>one</li><li>two</li></div>`,
	} {
		for _, mode := range []htmldoc.NavigationExclusionMode{htmldoc.NavigationExclusionNone, htmldoc.NavigationExclusionStandard} {
			r, err := htmldoc.OpenReader(strings.NewReader("<html><body>" + src + "</body></html>"))
			if err != nil {
				t.Fatal(err)
			}
			txt, err := r.TextWithOptions(htmldoc.ExtractOptions{NavigationExclusion: mode})
			if err != nil {
				t.Fatal(err)
			}
			for _, w := range []string{"one", "two"} {
				if n := strings.Count(txt, w); n != 1 {
					t.Errorf("mode %v %s: %q returned %d times in %q, want once", mode, src, w, n, txt)
				}
			}
		}
	}
}

// C19 / C15 / R15.14: a table without th cells or thead was written with its first row as the header line (a pipe
// table needs one) and then again as the first data row.
func TestHTMLHeaderlessTableFirstRowOnce(t *testing.T) {
	src := `<html><body><table><tr><td>alpha</td><td>beta</td></tr><tr><td>gamma</td><td>delta</td></tr></table></body></html>`
	r, err := htmldoc.OpenReader(strings.NewReader(src))
	if err != nil {
		t.Fatal(err)
	}
	md, err := r.Markdown()
	if err != nil {
		t.Fatal(err)
	}
	for _, w := range []string{"alpha", "beta", "gamma", "delta"} {
		if n := strings.Count(md, w); n != 1 {
			t.Errorf("%q appears %d times in %q, want once", w, n, md)
		}
	}
}
