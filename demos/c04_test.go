package demo

import (
	"testing"

	"github.com/tsawler/tabula/core"
)

// An object stream of a later revision may name the stream it extends (ISO 32000-1, 7.5.7, /Extends). The document
// parser yields the reference as a core.IndirectRef value; NewObjectStream asserted *core.IndirectRef and refused the
// stream, so every object packed in it was unreadable (found by R4.16 on the history "three stream revisions").
func TestObjectStreamWithExtends(t *testing.T) {
	data := []byte("7 0 (r1o7) ")
	st := &core.Stream{
		Dict: core.Dict{
			"Type":    core.Name("ObjStm"),
			"N":       core.Int(1),
			"First":   core.Int(4),
			"Extends": core.IndirectRef{Number: 5, Generation: 0},
			"Length":  core.Int(len(data)),
		},
		Data: data,
	}
	os, err := core.NewObjectStream(st)
	if err != nil {
		t.Fatalf("an object stream with /Extends 5 0 R is refused: %v", err)
	}
	obj, num, err := os.GetObjectByIndex(0)
	if err != nil || num != 7 {
		t.Fatalf("object 7 of the stream: %v %d %v", obj, num, err)
	}
	if ext := os.Extends(); ext == nil || ext.Number != 5 {
		t.Fatalf("Extends() = %v, the stream extends object 5", ext)
	}
}
