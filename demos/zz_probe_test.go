package demo

import (
	"testing"

	"github.com/tsawler/tabula"
)

func epubAt(t *testing.T, opfPath string, hrefs []string, files [][2]string) string {
	manifest, spine := "", ""
	for i, h := range hrefs {
		id := string(rune('a' + i))
		manifest += `<item id="` + id + `" href="` + h + `" media-type="application/xhtml+xml"/>`
		spine += `<itemref idref="` + id + `"/>`
	}
	all := [][2]string{
		{"mimetype", "application/epub+zip"},
		{"META-INF/container.xml", `<?xml version="1.0"?><container version="1.0" xmlns="urn:oasis:names:tc:opendocument:xmlns:container"><rootfiles><rootfile full-path="` + opfPath + `" media-type="application/oebps-package+xml"/></rootfiles></container>`},
		{opfPath, `<?xml version="1.0"?><package xmlns="http://www.idpf.org/2007/opf" version="3.0"><metadata xmlns:dc="http://purl.org/dc/elements/1.1/"><dc:title>T</dc:title></metadata><manifest>` + manifest + `</manifest><spine>` + spine + `</spine></package>`},
	}
	all = append(all, files...)
	return zipOf(t, "b.epub", all)
}

func ch(s string) string {
	return `<?xml version="1.0"?><html xmlns="http://www.w3.org/1999/xhtml"><head><title>x</title></head><body><p>` + s + `</p></body></html>`
}

func TestEpubProbe(t *testing.T) {
	for _, tc := range []struct{ opf string; hrefs []string; files [][2]string }{
		{"content.opf", []string{"./one.xhtml", "two.xhtml"}, [][2]string{{"one.xhtml", ch("ONE")}, {"two.xhtml", ch("TWO")}}},
		{"OEBPS/content.opf", []string{"./one.xhtml", "text/../two.xhtml"}, [][2]string{{"OEBPS/one.xhtml", ch("ONE")}, {"OEBPS/two.xhtml", ch("TWO")}}},
		{"OEBPS/content.opf", []string{"../one.xhtml", "two.xhtml#frag"}, [][2]string{{"one.xhtml", ch("ONE")}, {"OEBPS/two.xhtml", ch("TWO")}}},
	} {
		p := epubAt(t, tc.opf, tc.hrefs, tc.files)
		txt, _, err := tabula.Open(p).Text()
		t.Logf("%v %v -> %q %v", tc.opf, tc.hrefs, txt, err)
	}
}
