package demo

import (
	"testing"

	"github.com/tsawler/tabula/core"
	"github.com/tsawler/tabula/font"
)

func cmapStream(body string) *core.Stream {
	return &core.Stream{Dict: core.Dict{}, Data: []byte("/CIDInit /ProcSet findresource begin 12 dict begin begincmap /CMapName /X def 1 begincodespacerange <00> <FF> endcodespacerange " + body + " endcmap end end")}
}

func TestCMapProbe(t *testing.T) {
	for _, body := range []string{
		"2 beginbfrange <01> <02> [<0041> <0042>] <03> <04> <0050> endbfrange",
		"2 beginbfrange\n<01> <02> [<0041> <0042>]\n<03> <04> <0050>\nendbfrange",
		"2 beginbfrange\r<01> <02> [<0041> <0042>]\r<03> <04> <0050>\rendbfrange",
		"2 beginbfrange\n<01> <02> [<0041> <0042>] <03> <04> <0050>\nendbfrange",
		"2 beginbfrange\n<01> <02>\n[<0041>\n<0042>]\n<03> <04> <0050>\nendbfrange",
		"1 beginbfrange <03> <04> <0050> endbfrange 1 beginbfrange <01> <02> [<0041> <0042>] endbfrange",
	} {
		cm, err := font.ParseToUnicodeCMap(cmapStream(body))
		if err != nil {
			t.Logf("%q: %v", body, err)
			continue
		}
		t.Logf("%q -> %q %q %q %q", body, cm.Lookup(1), cm.Lookup(2), cm.Lookup(3), cm.Lookup(4))
	}
}
