package demo

import (
	"strings"
	"testing"

	"github.com/tsawler/tabula/layout"
	"github.com/tsawler/tabula/model"
	"github.com/tsawler/tabula/text"
)

// C09 / R9.9: buildElementTree stored &heading, &list and &para of its range loops in the elements; under the
// module's language version (go 1.18) the loop variable is one variable per loop, so every element of a kind
// pointed at the LAST heading / list / paragraph of the page.
func TestElementsPointAtTheirOwnStructure(t *testing.T) {
	big := func(s string, y float64) text.TextFragment {
		return text.TextFragment{Text: s, X: 50, Y: y, Width: 200, Height: 20, FontSize: 20, FontName: "Helvetica-Bold"}
	}
	var fr []text.TextFragment
	fr = append(fr, big("First Heading", 740))
	fr = append(fr, frg("Body text under the first heading that is long enough to be a paragraph.", 50, 700, 400))
	fr = append(fr, frg("1. alpha item", 50, 660, 100), frg("2. beta item", 50, 646, 100))
	fr = append(fr, big("Second Heading", 600))
	fr = append(fr, frg("Body text under the second heading that is long enough to be a paragraph.", 50, 560, 400))
	fr = append(fr, frg("- gamma item", 50, 520, 100), frg("- delta item", 50, 506, 100))
	res := layout.NewAnalyzer().Analyze(fr, 612, 792)
	var heads, lists []string
	for _, e := range res.Elements {
		switch e.Type {
		case model.ElementTypeHeading:
			if e.Heading != nil {
				heads = append(heads, e.Text+"|"+e.Heading.Text)
			}
		case model.ElementTypeList:
			if e.List != nil {
				var it []string
				for _, i := range e.List.Items {
					it = append(it, i.Text)
				}
				lists = append(lists, e.Text+"|"+strings.Join(it, ","))
				m := e.ToModelElement().(*model.List)
				for _, i := range m.Items {
					if !strings.Contains(e.Text, i.Text) {
						t.Errorf("list element %q converts to a model list with the foreign item %q", e.Text, i.Text)
					}
				}
			}
		}
	}
	t.Logf("headings %q lists %q", heads, lists)
	if len(heads) < 2 && len(lists) < 2 {
		t.Skipf("detectors found fewer than two headings and lists")
	}
	for _, h := range heads {
		p := strings.SplitN(h, "|", 2)
		if strings.TrimSpace(p[0]) != strings.TrimSpace(p[1]) {
			t.Errorf("heading element %q points at heading %q", p[0], p[1])
		}
	}
	md := res.GetMarkdown()
	if len(heads) >= 2 && (!strings.Contains(md, "First Heading") || strings.Count(md, "Second Heading") != 1) {
		t.Errorf("GetMarkdown: %q", md)
	}
}
